// Scratch crate generated on every run. Pasted from /repo's current working tree (header and body byte for byte), from
// crates/fuel-core/src/service/genesis/importer/import_task.rs:
//   struct ImportTask, ImportTask::new, ImportTask::run
// Stand-ins (trusted, listed in unit.toml): the genesis database and its write transaction are recording contracts
// (progress table = one usize per migration name; a transaction's writes - the handler's and the progress update - take
// effect only at commit); the table handler, the group source and the cancellation token answer as the harness chose.
#![allow(unused)]
extern crate alloc;
use core::cell::{Cell, RefCell};
use core::marker::PhantomData;
use std::borrow::Cow;
use anyhow::bail;

pub struct TableEntry<T>(pub u8, pub PhantomData<T>);
pub trait TableWithBlueprint { const ID: u8; }
pub struct SnapTable; pub struct WrittenTable;
impl TableWithBlueprint for SnapTable { const ID: u8 = 1; } impl TableWithBlueprint for WrittenTable { const ID: u8 = 2; }
pub trait DatabaseDescription { type Column; }
pub struct Desc; impl DatabaseDescription for Desc { type Column = u32; }
pub struct GenesisMetadata<D>(PhantomData<D>);
impl<D> TableWithBlueprint for GenesisMetadata<D> { const ID: u8 = 9; }
/// migration name: identifies the (snapshot table, written table) pair (the real one is a formatted String of the two column names)
#[derive(Clone, Copy, PartialEq, Eq, Debug)] pub struct Name(pub u8, pub u8);
pub fn migration_name<A: TableWithBlueprint, B: TableWithBlueprint>() -> Name { Name(A::ID, B::ID) }
pub struct ProgressReporter { pub last: Cell<Option<usize>> }
impl ProgressReporter { pub fn set_index(&self, i: usize) { self.last.set(Some(i)); } }
pub trait NotifyCancel {}
pub struct Never; impl NotifyCancel for Never {}
/// answers "cancelled" from the k-th poll on
pub struct CancellationToken<N> { pub cancel_at_poll: usize, pub polls: Cell<usize>, pub _n: PhantomData<N> }
impl<N> CancellationToken<N> { pub fn is_cancelled(&self) -> bool { let k = self.polls.get(); self.polls.set(k + 1); k >= self.cancel_at_poll } }

pub const MAXG: usize = 3;
/// the database: committed progress + a log of which groups' handler writes were committed
pub struct GenesisDatabase<D> { pub progress_key: Name, pub foreign_progress: Option<usize>, pub progress: Cell<Option<usize>>, pub read_fails: bool, pub applied: RefCell<[usize; MAXG]>, pub n_applied: Cell<usize>, pub commit_fails_at: Option<usize>, pub commits: Cell<usize>, pub wrote_foreign_key: Cell<bool>, pub _d: PhantomData<D> }
pub struct ProgressRef<'a, D>(&'a GenesisDatabase<D>);
impl<D> GenesisDatabase<D> {
    pub fn storage<T>(&self) -> ProgressRef<'_, D> { ProgressRef(self) }
    pub fn write_transaction(&mut self) -> StorageTransaction<&mut GenesisDatabase<D>> { StorageTransaction { db: self, handled: None, progress: None } }
}
impl<'a, D> ProgressRef<'a, D> {
    pub fn get(&self, name: &Name) -> Result<Option<Cow<'a, usize>>, StorageError> {
        if self.0.read_fails { return Err(StorageError) }
        // this task's progress lives under its own migration name; any other name holds some other task's progress (or nothing)
        Ok(if *name == self.0.progress_key { self.0.progress.get() } else { self.0.foreign_progress }.map(Cow::Owned))
    }
}
#[derive(Debug)] pub struct StorageError;
impl core::fmt::Display for StorageError { fn fmt(&self, f: &mut core::fmt::Formatter<'_>) -> core::fmt::Result { Ok(()) } }
impl std::error::Error for StorageError {}
/// a write transaction: buffers the handler's writes for one group and the progress update; nothing reaches the database before commit
pub struct StorageTransaction<S> { pub db: S, pub handled: Option<u8>, pub progress: Option<(Name, usize)> }
impl<'a, D> StorageTransaction<&'a mut GenesisDatabase<D>> {
    pub fn commit(self) -> Result<(), StorageError> {
        let c = self.db.commits.get(); self.db.commits.set(c + 1);
        if self.db.commit_fails_at == Some(c) { return Err(StorageError) }
        if let Some(g) = self.handled { let k = self.db.n_applied.get(); if k < MAXG { self.db.applied.borrow_mut()[k] = g as usize; } self.db.n_applied.set(k + 1); }
        if let Some((name, p)) = self.progress { if name == self.db.progress_key { self.db.progress.set(Some(p)); } else { self.db.wrote_foreign_key.set(true); } }
        Ok(())
    }
}
pub struct GenesisProgressMutate<D>(PhantomData<D>);
impl<D> GenesisProgressMutate<D> {
    pub fn update_genesis_progress(tx: &mut StorageTransaction<&mut GenesisDatabase<D>>, name: &Name, processed_group: usize) -> Result<(), StorageError> { tx.progress = Some((*name, processed_group)); Ok(()) }
}
pub trait ImportTable {
    type TableInSnapshot: TableWithBlueprint;
    type TableBeingWritten: TableWithBlueprint;
    type DbDesc: DatabaseDescription;
    fn process(&mut self, group: Vec<TableEntry<Self::TableInSnapshot>>, tx: &mut StorageTransaction<&mut GenesisDatabase<Self::DbDesc>>) -> anyhow::Result<()>;
}
pub struct Handler { pub fails_on: Option<u8> }
impl ImportTable for Handler {
    type TableInSnapshot = SnapTable; type TableBeingWritten = WrittenTable; type DbDesc = Desc;
    fn process(&mut self, group: Vec<TableEntry<SnapTable>>, tx: &mut StorageTransaction<&mut GenesisDatabase<Desc>>) -> anyhow::Result<()> {
        let id = group[0].0;
        core::mem::forget(group);
        if self.fails_on == Some(id) { bail!("handler") }
        tx.handled = Some(id);
        Ok(())
    }
}
/// the snapshot's groups: group i carries the id i; reading group `bad` fails
pub struct Groups { pub n: usize, pub bad: Option<usize>, pub next: usize }
impl Iterator for Groups {
    type Item = anyhow::Result<Vec<TableEntry<SnapTable>>>;
    fn next(&mut self) -> Option<Self::Item> {
        if self.next >= self.n { return None }
        let i = self.next; self.next += 1;
        if self.bad == Some(i) { Some(Err(anyhow::anyhow!("read"))) } else { Some(Ok(vec![TableEntry(i as u8, PhantomData)])) }
    }
}

//@ extract crates/fuel-core/src/service/genesis/importer/import_task.rs struct ImportTask
//@ end
// (the real code has two impl blocks with storage-trait where-clauses; the stand-ins need only these bounds)
impl<Logic, GroupGenerator, DbDesc> ImportTask<Logic, GroupGenerator, DbDesc>
where DbDesc: DatabaseDescription, Logic: ImportTable<DbDesc = DbDesc>, GroupGenerator: IntoIterator<Item = anyhow::Result<Vec<TableEntry<Logic::TableInSnapshot>>>>,
{
//@ extract crates/fuel-core/src/service/genesis/importer/import_task.rs ImportTask::new
//@ end
//@ extract crates/fuel-core/src/service/genesis/importer/import_task.rs ImportTask::run
//@ end
}

// =====================================================================================================================
//@ include pred.rs

#[cfg(kani)]
fn run_case(n: usize) {
    let p_some: bool = kani::any();
    let p: usize = kani::any();
    kani::assume(p <= 4);
    let db = GenesisDatabase::<Desc> { progress_key: Name(1, 2), foreign_progress: if kani::any() { Some(kani::any::<u8>() as usize % 5) } else { None }, wrote_foreign_key: Cell::new(false), progress: Cell::new(if p_some { Some(p) } else { None }), read_fails: false, applied: RefCell::new([9; MAXG]), n_applied: Cell::new(0),
        commit_fails_at: if kani::any() { Some((kani::any::<u8>() % 3) as usize) } else { None }, commits: Cell::new(0), _d: PhantomData };
    let commit_fails_at = db.commit_fails_at;
    let fails_on: Option<u8> = if kani::any() { Some(kani::any::<u8>() % 3) } else { None };
    let bad: Option<usize> = if kani::any() { Some((kani::any::<u8>() % 3) as usize) } else { None };
    let cancel_at_poll: usize = kani::any();
    kani::assume(cancel_at_poll <= 5);
    let task = ImportTask::new(Handler { fails_on }, Groups { n, bad, next: 0 }, db, ProgressReporter { last: Cell::new(None) });
    let skip = skip_of(p_some, p as u64) as usize;
    kani::assert(task.skip == skip, "[C40.genesis-task.new.resumes-right-after-the-last-recorded-group]");
    // `run` consumes the task (and the database inside it); keep raw views for the post-state
    let dbp: *const GenesisDatabase<Desc> = &task.db;
    let token = CancellationToken::<Never> { cancel_at_poll, polls: Cell::new(0), _n: PhantomData };
    let mut task = task;
    // move the database to a stable place so the pointer stays valid: run() moves `self.db` into a local
    let r = task_run(task, token);
    let (ok, applied, n_applied, progress) = r;
    // reference walk: groups skip..n in order; group i is applied iff not cancelled before it, readable, handled and committed
    let mut want: [usize; MAXG] = [9; MAXG]; let mut w = 0usize;
    let mut polls = 1usize; // one poll before the loop
    let mut stopped = false; let mut failed = false; let mut commits = 0usize;
    let mut i = 0usize;
    while i < MAXG {
        if i < n && i >= skip && !stopped && !failed {
            let cancelled = polls >= cancel_at_poll; polls += 1;
            if cancelled { stopped = true; }
            else if bad == Some(i) || fails_on == Some(i as u8) { failed = true; }
            else { let c = commits; commits += 1; if commit_fails_at == Some(c) { failed = true; } else { want[w] = i; w += 1; } }
        }
        i += 1;
    }
    let cancelled_at_entry = cancel_at_poll == 0;
    if n == 3 { kani::cover!(ok && w == 2 && skip == 1, "[C40.genesis-task.run.cover-resumed-run-completes]"); kani::cover!(!ok && w == 1, "[C40.genesis-task.run.cover-interrupted-after-one-group]"); }
    kani::assert(n_applied == w && (w < 1 || applied[0] == want[0]) && (w < 2 || applied[1] == want[1]) && (w < 3 || applied[2] == want[2]), "[C40.genesis-task.run.applies-exactly-the-groups-after-the-recorded-progress-in-order-each-once]");
    kani::assert(progress == (if w > 0 { Some(want[w - 1]) } else if p_some { Some(p) } else { None }), "[C40.genesis-task.run.recorded-progress-is-the-last-applied-group]");
    kani::assert(!unsafe { LAST_FOREIGN }, "[C40.genesis-task.run.progress-is-recorded-under-this-tasks-own-migration-name]");
    // no group left to look at: the answer of the first cancellation poll decides
    let nothing_to_do = !(skip < n);
    kani::assert(ok == (!failed && !stopped && !(nothing_to_do && cancelled_at_entry)), "[C40.genesis-task.run.fails-iff-interrupted]");
}
// run() takes self by value; this helper runs it and reads the database back through the reporter-independent log
#[cfg(kani)]
fn task_run(task: ImportTask<Handler, Groups, Desc>, token: CancellationToken<Never>) -> (bool, [usize; MAXG], usize, Option<usize>) {
    // the database is moved into run(); to observe it afterwards the stand-in database mirrors its state into statics
    let r = task.run(token);
    let ok = r.is_ok();
    core::mem::forget(r);
    unsafe { (ok, LAST_APPLIED, LAST_N_APPLIED, LAST_PROGRESS) }
}
#[cfg(kani)] static mut LAST_APPLIED: [usize; MAXG] = [9; MAXG];
#[cfg(kani)] static mut LAST_N_APPLIED: usize = 0;
#[cfg(kani)] static mut LAST_PROGRESS: Option<usize> = None;
#[cfg(kani)] static mut LAST_FOREIGN: bool = false;
#[cfg(kani)]
impl<D> Drop for GenesisDatabase<D> {
    fn drop(&mut self) { unsafe { LAST_FOREIGN = self.wrote_foreign_key.get(); LAST_APPLIED = *self.applied.borrow(); LAST_N_APPLIED = self.n_applied.get(); LAST_PROGRESS = self.progress.get(); } }
}
#[cfg(kani)] fn fmt_stub(_a: core::fmt::Arguments<'_>) -> String { String::new() }

//@ harness kind=bounded tier=quick bound="snapshot with at most 3 groups" timeout=900 extra="--default-unwind 5"
#[cfg(kani)] #[kani::proof] #[kani::stub(alloc::fmt::format, fmt_stub)]
fn c40_run_3_groups() { run_case(3); }
//@ harness kind=bounded tier=quick bound="snapshot with at most 3 groups" timeout=900 extra="--default-unwind 5"
#[cfg(kani)] #[kani::proof] #[kani::stub(alloc::fmt::format, fmt_stub)]
fn c40_run_2_groups() { run_case(2); }
//@ harness kind=bounded tier=quick bound="snapshot with at most 3 groups" timeout=900 extra="--default-unwind 5"
#[cfg(kani)] #[kani::proof] #[kani::stub(alloc::fmt::format, fmt_stub)]
fn c40_run_0_groups() { run_case(0); }

// Vacuity canary: "no group is ever applied" must FAIL.
//@ harness kind=canary tier=quick expect=C40.genesis-task.canary.nothing-applied timeout=900 extra="--default-unwind 5"
#[cfg(kani)] #[kani::proof] #[kani::stub(alloc::fmt::format, fmt_stub)]
fn c40_canary() {
    let db = GenesisDatabase::<Desc> { progress_key: Name(1, 2), foreign_progress: None, wrote_foreign_key: Cell::new(false), progress: Cell::new(None), read_fails: false, applied: RefCell::new([9; MAXG]), n_applied: Cell::new(0), commit_fails_at: None, commits: Cell::new(0), _d: PhantomData };
    let task = ImportTask::new(Handler { fails_on: None }, Groups { n: 2, bad: None, next: 0 }, db, ProgressReporter { last: Cell::new(None) });
    let (_ok, _a, n_applied, _p) = task_run(task, CancellationToken::<Never> { cancel_at_poll: 9, polls: Cell::new(0), _n: PhantomData });
    kani::assert(n_applied == 0, "[C40.genesis-task.canary.nothing-applied]");
}
