// From the per-run contract of ImportTask::run (Kani, extracted real text) to the property: interrupt a run anywhere,
// restart it (any number of times), and the groups applied over all runs are exactly 0, 1, ..., n-1, each once, in order.
use vstd::prelude::*;
verus! {

// a run that starts with `done` groups already applied (progress = done-1) and applies groups done .. stop
pub open spec fn run_applies(done: nat, stop: nat) -> Seq<nat> { Seq::new((stop - done) as nat, |i: int| (done + i) as nat) }

// state after a sequence of runs: each run r starts where the previous stopped and stops at stops[r] (monotone, <= n)
pub open spec fn valid_stops(n: nat, stops: Seq<nat>) -> bool {
    forall|r: int| 0 <= r < stops.len() ==> #[trigger] stops[r] <= n && (r == 0 || stops[r - 1] <= stops[r])
}
pub open spec fn applied_after(stops: Seq<nat>, k: int) -> Seq<nat>
    decreases k
{
    if k <= 0 { Seq::<nat>::empty() } else { applied_after(stops, k - 1) + run_applies(if k == 1 { 0 } else { stops[k - 2] }, stops[k - 1]) }
}

pub proof fn lemma_restarts_apply_each_group_once_in_order(n: nat, stops: Seq<nat>, k: int)
    requires valid_stops(n, stops), 0 <= k <= stops.len(),
    ensures applied_after(stops, k).len() == (if k == 0 { 0 } else { stops[k - 1] }),
            forall|i: int| 0 <= i < applied_after(stops, k).len() ==> applied_after(stops, k)[i] == i as nat,
    decreases k,
{
    if k > 0 {
        lemma_restarts_apply_each_group_once_in_order(n, stops, k - 1);
        let prev: nat = if k == 1 { 0 } else { stops[k - 2] };
        assert(stops[k - 1] >= prev);
        assert(run_applies(prev, stops[k - 1]).len() == stops[k - 1] - prev);
    }
}

// a run sequence that ends by reaching n has applied exactly 0..n
pub proof fn lemma_final_state_is_the_uninterrupted_import(n: nat, stops: Seq<nat>)
    requires valid_stops(n, stops), stops.len() >= 1, stops[stops.len() - 1] == n,
    ensures applied_after(stops, stops.len() as int) =~= Seq::new(n, |i: int| i as nat),
{
    lemma_restarts_apply_each_group_once_in_order(n, stops, stops.len() as int);
}

} // verus!
fn main() {}
