// Shared predicate text. One run of the import task over groups 0..n, starting with recorded progress `p` (None = nothing
// recorded) and stopping (cancellation or failure) before group `stop` (stop >= n: runs to the end):
//   the groups applied are exactly skip(p) .. min(stop, n), and the recorded progress afterwards is the last applied one.
pub fn skip_of(p_some: bool, p: u64) -> u64 { if p_some { if p == 0xffff_ffff_ffff_ffff { p } else { (p + 1) as u64 } } else { 0 } }
