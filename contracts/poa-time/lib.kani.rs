// Scratch crate generated on every run. Real text: increase_time, MainTask::next_time, enum Trigger, enum RequestType.
#![allow(unused)]
use std::time::Duration;

// ---- stand-ins (trusted; listed in unit.toml) ----------------------------------------------------------------
use core::cell::{Cell, RefCell};
use std::sync::Arc;
use anyhow::anyhow;
#[macro_export] macro_rules! __noop { ($($t:tt)*) => {{}} }
pub mod tracing { pub use crate::__noop as error; pub use crate::__noop as info; pub use crate::__noop as warn; pub use crate::__noop as debug; }

#[derive(Clone, Copy, Debug, PartialEq, Eq, PartialOrd, Ord)]
pub struct Tai64(pub u64);
#[derive(Clone, Copy, Debug, PartialEq, Eq, PartialOrd, Ord)]
pub struct BlockHeight(pub u32);
/// a point on the monotonic clock: `tick` orders instants, `elapsed` is what Instant::elapsed() answers (arbitrary)
#[derive(Clone, Copy, Debug, PartialEq, Eq, PartialOrd, Ord)]
pub struct Instant { pub tick: u64, pub elapsed: Duration }
thread_local! { }
static mut NOW_TICK: u64 = 0;
impl Instant {
    pub fn elapsed(&self) -> Duration { self.elapsed }
    pub fn now() -> Instant { Instant { tick: unsafe { NOW_TICK }, elapsed: Duration::ZERO } }
}
pub trait GetTime { fn now(&self) -> Tai64; }
pub struct Clock { now: Tai64 }
impl GetTime for Clock { fn now(&self) -> Tai64 { self.now } }

// ports of produce_block: recording mocks that answer Ok / Err as the harness chose
#[derive(Clone, Copy, Debug, PartialEq, Eq)] pub struct Block { pub height: BlockHeight, pub time: Tai64 }
#[derive(Clone, Copy, Debug, PartialEq, Eq)] pub struct Consensus(pub u64);
pub struct SealedBlock { pub entity: Block, pub consensus: Consensus }
pub struct Changes;
/// the skipped-transactions list of an execution result: at most one entry, iterated like the real Vec
pub struct Skipped(pub Option<(u64, u64)>);
impl Skipped { pub fn is_empty(&self) -> bool { self.0.is_none() } }
impl IntoIterator for Skipped { type Item = (u64, u64); type IntoIter = core::option::IntoIter<(u64, u64)>; fn into_iter(self) -> Self::IntoIter { self.0.into_iter() } }
pub struct ExecutionResult { pub block: Block, pub skipped_transactions: Skipped, pub tx_status: u8, pub events: u8 }
pub struct UncommittedExecutionResult<C>(pub ExecutionResult, pub C);
impl<C> From<UncommittedExecutionResult<C>> for (ExecutionResult, C) { fn from(u: UncommittedExecutionResult<C>) -> Self { (u.0, u.1) } }
pub struct ImportResult { pub sealed: SealedBlock }
impl ImportResult { pub fn new_from_local(sealed: SealedBlock, _tx_status: u8, _events: u8) -> Self { ImportResult { sealed } } }
pub struct Uncommitted<R, C>(pub R, pub C);
impl<R, C> Uncommitted<R, C> { pub fn new(r: R, c: C) -> Self { Uncommitted(r, c) } }
pub enum TransactionsSource { TxPool, SpecificTransactions(u8) }
/// one shared event log: 1 = produce, 2 = seal, 3 = import
pub struct Log;
static mut LOG_EVENTS: [u8; 4] = [0; 4];
static mut LOG_N: usize = 0;
impl Log { pub fn push(&self, e: u8) { unsafe { let k = LOG_N; if k < 4 { LOG_EVENTS[k] = e; } LOG_N = k + 1; } } }
pub struct Signer { pub available: bool, pub seal_fails: bool, pub sealed: Cell<Option<Block>>, pub log: Log }
impl Signer {
    pub fn is_available(&self) -> bool { self.available }
    pub async fn seal_block(&self, b: &Block) -> anyhow::Result<Consensus> { self.log.push(2); self.sealed.set(Some(*b)); if self.seal_fails { Err(anyhow!("seal")) } else { Ok(Consensus(b.height.0 as u64 ^ 0xabc)) } }
}
pub struct Importer { pub fails: bool, pub committed: Cell<Option<(Block, Consensus)>>, pub log: Log,
    // reconciliation side: what latest_block_height answers (before / after an import attempt), which reconciliation import fails, what was imported
    pub db_height: Cell<Option<u32>>, pub db_height_after_import: Option<u32>, pub db_read_fails: bool, pub fail_import_of: Option<u32>, pub imported: RefCell<[u32; 3]>, pub n_imported: Cell<usize> }
impl Importer {
    pub async fn commit_result(&self, r: Uncommitted<ImportResult, Changes>) -> anyhow::Result<()> {
        self.log.push(3); self.committed.set(Some((r.0.sealed.entity, r.0.sealed.consensus)));
        if self.fails { Err(anyhow!("import")) } else { Ok(()) }
    }
    pub fn latest_block_height(&self) -> anyhow::Result<Option<BlockHeight>> { if self.db_read_fails { Err(anyhow!("db")) } else { Ok(self.db_height.get().map(BlockHeight)) } }
    pub async fn execute_and_commit(&self, b: SealedBlock) -> anyhow::Result<()> {
        let h = b.entity.height.0;
        let k = self.n_imported.get(); if k < 3 { self.imported.borrow_mut()[k] = h; } self.n_imported.set(k + 1);
        if self.db_height_after_import.is_some() { self.db_height.set(self.db_height_after_import); }
        if self.fail_import_of == Some(h) { Err(anyhow!("exec")) } else { Ok(()) }
    }
}
impl BlockHeight { pub fn succ(self) -> Option<BlockHeight> { self.0.checked_add(1).map(BlockHeight) } }
impl From<BlockHeight> for u32 { fn from(h: BlockHeight) -> u32 { h.0 } }
impl Block { pub fn header(&self) -> &Block { self } pub fn height(&self) -> &BlockHeight { &self.height } pub fn time(&self) -> Tai64 { self.time } }
/// at most two blocks to reconcile, iterated like the Vec the real port returns
pub struct Blocks { pub items: [Option<SealedBlock>; 2], pub i: usize }
impl Iterator for Blocks { type Item = SealedBlock; fn next(&mut self) -> Option<SealedBlock> { while self.i < 2 { let it = self.items[self.i].take(); self.i += 1; if it.is_some() { return it } } None } }
pub enum LeaderState { UnreconciledBlocks(Blocks), ReconciledLeader, ReconciledFollower }
pub enum TaskNextAction { Continue, Stop, ErrorContinue(anyhow::Error) }
pub struct Reconciliation { pub answer: Cell<Option<LeaderState>>, pub fails: bool, pub asked_for: Cell<Option<u32>> }
impl Reconciliation { pub async fn leader_state(&self, next: BlockHeight) -> anyhow::Result<LeaderState> { self.asked_for.set(Some(next.0)); if self.fails { return Err(anyhow!("port")) } Ok(self.answer.take().unwrap_or(LeaderState::ReconciledFollower)) } }
pub async fn sleep_until(_d: Instant) {}
pub struct Producer { pub fails: bool, pub asked: Cell<Option<(BlockHeight, Tai64)>>, pub log: Log }

//@ extract crates/services/consensus_module/poa/src/config.rs enum Trigger keep_attrs=1
//@ end

//@ extract crates/services/consensus_module/poa/src/service.rs enum RequestType
//@ end

pub struct MainTask<C> { reconciliation_port: Reconciliation, reconciliation_watermark: Arc<std::sync::atomic::AtomicU32>, normal_production_calls: Cell<u32>, signer: Arc<Signer>, block_producer: Producer, block_importer: Importer, last_height: BlockHeight, last_timestamp: Tai64, last_block_created: Instant, trigger: Trigger, clock: C }

impl<C: GetTime> MainTask<C> {
//@ extract crates/services/consensus_module/poa/src/service.rs MainTask::next_time
//@ end
//@ extract crates/services/consensus_module/poa/src/service.rs MainTask::produce_block
//@ end
//@ extract crates/services/consensus_module/poa/src/service.rs MainTask::next_height
//@ end
//@ extract crates/services/consensus_module/poa/src/service.rs MainTask::try_to_produce_block
//@ end
    // contract of handle_normal_block_production (trigger handling + produce_block): recorded
    async fn handle_normal_block_production(&mut self, _deadline: Instant) -> TaskNextAction { self.normal_production_calls.set(self.normal_production_calls.get() + 1); TaskNextAction::Continue }
    // contract of signal_produce_block (block producer port + timeout + sleep): asked once, answers a block for exactly the
    // requested height and time, or an error
    async fn signal_produce_block(&self, height: BlockHeight, block_time: Tai64, _source: TransactionsSource, _deadline: Instant) -> anyhow::Result<UncommittedExecutionResult<Changes>> {
        self.block_producer.log.push(1);
        self.block_producer.asked.set(Some((height, block_time)));
        if self.block_producer.fails { return Err(anyhow!("produce")) }
        Ok(UncommittedExecutionResult(ExecutionResult { block: Block { height, time: block_time }, skipped_transactions: Skipped(None), tx_status: 0, events: 0 }, Changes))
    }
}

//@ extract crates/services/consensus_module/poa/src/service.rs increase_time
//@ end


#[cfg(kani)]
fn any_duration() -> Duration {
    let s: u64 = kani::any();
    let n: u32 = kani::any();
    kani::assume(n < 1_000_000_000);
    Duration::new(s, n)
}

// increase_time: Ok(t) <=> time + secs does not overflow, and then t == time + secs (so t >= time)
//@ harness kind=proof tier=quick timeout=900
#[cfg(kani)]
#[kani::proof]
fn c24_increase_time() {
    let t: u64 = kani::any();
    let d = any_duration();
    let r = increase_time(Tai64(t), d);
    let fits = t.checked_add(d.as_secs());
    kani::cover!(fits.is_none(), "[C24.poa-time.increase_time.cover-overflow]");
    match &r {
        Ok(x) => kani::assert(fits == Some(x.0) && x.0 >= t, "[C24.poa-time.increase_time.is-time-plus-whole-seconds-and-never-earlier]"),
        Err(_) => kani::assert(fits.is_none(), "[C24.poa-time.increase_time.fails-only-on-overflow]"),
    }
    core::mem::forget(r);
}

// next_time: the timestamp proposed for the next block is never earlier than the last block's timestamp;
// interval / open triggers add exactly the configured time on manual requests; on trigger firings the result is
// max(now, last + period) for Open and `now` when the clock is ahead otherwise
//@ harness kind=proof tier=quick timeout=900
#[cfg(kani)]
#[kani::proof]
fn c24_next_time() {
    let last: u64 = kani::any();
    let now: u64 = kani::any();
    let trig_kind: u8 = kani::any();
    kani::assume(trig_kind <= 3);
    let cfg = any_duration();
    let trigger = match trig_kind { 0 => Trigger::Instant, 1 => Trigger::Never, 2 => Trigger::Interval { block_time: cfg }, _ => Trigger::Open { period: cfg } };
    let elapsed = any_duration();
    let task = mk_task(0, Tai64(last), Instant { tick: 0, elapsed }, trigger, Tai64(now), true, false, false, false);
    let manual: bool = kani::any();
    let r = task.next_time(if manual { RequestType::Manual } else { RequestType::Trigger });
    kani::cover!(r.is_ok() && !manual && trig_kind == 3 && now < last, "[C24.poa-time.next_time.cover-clock-behind-open-trigger]");
    kani::cover!(r.is_err(), "[C24.poa-time.next_time.cover-overflow]");
    if let Ok(t) = &r {
        let t = t.0;
        kani::assert(t >= last, "[C24.poa-time.next_time.never-earlier-than-last-block]");
        if manual && trig_kind >= 2 {
            kani::assert(Some(t) == last.checked_add(cfg.as_secs()), "[C24.poa-time.next_time.manual-interval-or-open-adds-exactly-configured-time]");
        }
        if manual && trig_kind < 2 {
            kani::assert(Some(t) == last.checked_add(elapsed.as_secs()), "[C24.poa-time.next_time.manual-instant-adds-elapsed-whole-seconds]");
        }
        if !manual && trig_kind == 3 {
            let expected = last.checked_add(cfg.as_secs());
            kani::assert(expected.is_some() && t == (if now > expected.unwrap() { now } else { expected.unwrap() }), "[C24.poa-time.next_time.open-trigger-is-max-of-now-and-last-plus-period]");
        }
        if !manual && trig_kind != 3 && now > last {
            kani::assert(t == now, "[C24.poa-time.next_time.trigger-with-clock-ahead-uses-now]");
        }
    }
    core::mem::forget(r);
}

#[cfg(kani)]
fn mk_task(h: u32, last: Tai64, created: Instant, trigger: Trigger, now: Tai64, available: bool, pf: bool, sf: bool, imf: bool) -> MainTask<Clock> {
    unsafe { LOG_N = 0; LOG_EVENTS = [0; 4]; }
    MainTask { reconciliation_port: Reconciliation { answer: Cell::new(None), fails: false, asked_for: Cell::new(None) }, reconciliation_watermark: Arc::new(std::sync::atomic::AtomicU32::new(0)), normal_production_calls: Cell::new(0), signer: Arc::new(Signer { available, seal_fails: sf, sealed: Cell::new(None), log: Log }),
        block_producer: Producer { fails: pf, asked: Cell::new(None), log: Log },
        block_importer: Importer { fails: imf, committed: Cell::new(None), log: Log, db_height: Cell::new(None), db_height_after_import: None, db_read_fails: false, fail_import_of: None, imported: RefCell::new([0; 3]), n_imported: Cell::new(0) },
        last_height: BlockHeight(h), last_timestamp: last, last_block_created: created, trigger, clock: Clock { now } }
}

// produce_block: only blocks whose timestamp is not below the last block's are produced; the block is produced for the
// requested height and time, sealed, then imported - in that order, each once; height and timestamp advance exactly on
// success and are untouched by any failure (missing key, stale timestamp, producer, signer or importer error).
//@ harness kind=proof tier=quick timeout=2400 extra="-Z async-lib --default-unwind 3"
#[cfg(kani)]
#[kani::proof]
fn c24_produce_block() {
    let (h0, t0, h, t): (u32, u64, u32, u64) = (kani::any(), kani::any(), kani::any(), kani::any());
    let trig_kind: u8 = kani::any();
    kani::assume(trig_kind <= 3);
    let cfg = any_duration();
    let trigger = match trig_kind { 0 => Trigger::Instant, 1 => Trigger::Never, 2 => Trigger::Interval { block_time: cfg }, _ => Trigger::Open { period: cfg } };
    let (available, pf, sf, imf): (bool, bool, bool, bool) = (kani::any(), kani::any(), kani::any(), kani::any());
    let created0 = Instant { tick: kani::any(), elapsed: Duration::ZERO };
    unsafe { NOW_TICK = kani::any(); }
    let mut task = mk_task(h0, Tai64(t0), created0, trigger, Tai64(kani::any()), available, pf, sf, imf);
    let deadline = Instant { tick: kani::any(), elapsed: Duration::ZERO };
    let r = kani::block_on(task.produce_block(BlockHeight(h), Tai64(t), TransactionsSource::TxPool, deadline));
    let ok = r.is_ok();
    let (n, ev) = unsafe { (LOG_N, LOG_EVENTS) };
    kani::cover!(ok, "[C24.poa-time.produce.cover-produced]");
    kani::cover!(!ok && available && t >= t0 && !pf && !sf && imf, "[C24.poa-time.produce.cover-import-failure]");
    kani::assert(ok == (available && t >= t0 && !pf && !sf && !imf), "[C24.poa-time.produce.succeeds-iff-key-available-timestamp-not-decreasing-and-all-ports-succeed]");
    // nothing is asked of any port unless the key is available and the timestamp does not go backwards
    kani::assert((available && t >= t0) || n == 0, "[C24.poa-time.produce.stale-timestamp-or-missing-key-rejected-before-any-port-call]");
    // order: produce, then seal, then import; each at most once; import only of a sealed block
    kani::assert(n <= 3 && (n < 1 || ev[0] == 1) && (n < 2 || ev[1] == 2) && (n < 3 || ev[2] == 3), "[C24.poa-time.produce.block-is-produced-then-sealed-then-imported-each-once]");
    if n >= 1 { kani::assert(task.block_producer.asked.get() == Some((BlockHeight(h), Tai64(t))), "[C24.poa-time.produce.producer-asked-for-the-requested-height-and-time]"); }
    if n >= 3 {
        let sealed = task.signer.sealed.get();
        let committed = task.block_importer.committed.get();
        kani::assert(sealed == Some(Block { height: BlockHeight(h), time: Tai64(t) }) && committed.map(|c| c.0) == sealed && committed.map(|c| c.1) == Some(Consensus(h as u64 ^ 0xabc)), "[C24.poa-time.produce.imported-block-is-the-produced-block-with-its-seal]");
    }
    // the task's notion of the chain tip moves exactly on success
    if ok {
        kani::assert(task.last_height == BlockHeight(h) && task.last_timestamp == Tai64(t), "[C24.poa-time.produce.height-and-timestamp-advance-to-the-committed-block]");
    } else {
        kani::assert(task.last_height == BlockHeight(h0) && task.last_timestamp == Tai64(t0) && task.last_block_created == created0, "[C24.poa-time.produce.failure-does-not-advance-height-or-timestamp]");
    }
    core::mem::forget(r);
}

// try_to_produce_block: the reconciliation path. The task's height follows the database, never goes backwards, advances to a
// reconciled block only after that block was imported successfully, and a failed import never advances it (beyond what
// the database itself reports).
#[cfg(kani)]
fn reconcile_case(kind: u8, n_blocks: u8, fail_sel: u8) {
    let (h0, t0): (u32, u64) = (kani::any(), kani::any());
    kani::assume(h0 < u32::MAX - 4);
    let mut task = mk_task(h0, Tai64(t0), Instant { tick: 0, elapsed: Duration::ZERO }, Trigger::Never, Tai64(0), true, false, false, false);
    let db0: Option<u32> = if kani::any() { Some(kani::any()) } else { None };
    // heights below u32::MAX: next_height() has no successor to offer at the maximum (the code's own expect)
    kani::assume(db0 != Some(u32::MAX));
    task.block_importer.db_height.set(db0);
    task.block_importer.db_read_fails = kani::any();
    let db_read_fails = task.block_importer.db_read_fails;
    let db_after: Option<u32> = if kani::any() { Some(kani::any()) } else { None };
    kani::assume(db_after != Some(u32::MAX));
    task.block_importer.db_height_after_import = db_after;
    let (b1h, b1t, b2h, b2t): (u32, u64, u32, u64) = (kani::any(), kani::any(), kani::any(), kani::any());
    kani::assume(b1h != u32::MAX && b2h != u32::MAX);
    // which reconciliation import fails: none, the first block's, the second block's
    let fail_of: Option<u32> = match fail_sel { 0 => None, 1 => Some(b1h), _ => Some(b2h) };
    task.block_importer.fail_import_of = fail_of;
    let mkb = |h: u32, t: u64| SealedBlock { entity: Block { height: BlockHeight(h), time: Tai64(t) }, consensus: Consensus(0) };
    let answer = match kind { 0 => LeaderState::ReconciledFollower, 1 => LeaderState::ReconciledLeader,
        _ => LeaderState::UnreconciledBlocks(Blocks { items: [if n_blocks >= 1 { Some(mkb(b1h, b1t)) } else { None }, if n_blocks >= 2 { Some(mkb(b2h, b2t)) } else { None }], i: 0 }) };
    task.reconciliation_port.answer.set(Some(answer));
    task.reconciliation_port.fails = kani::any();
    let port_fails = task.reconciliation_port.fails;
    let r = kani::block_on(task.try_to_produce_block(Instant { tick: 0, elapsed: Duration::ZERO }));
    let ok = r.is_ok();
    core::mem::forget(r);
    // reference: height after syncing with the database
    let synced = match db0 { Some(d) if !db_read_fails && d > h0 => d, _ => h0 };
    kani::assert(task.reconciliation_port.asked_for.get() == Some(synced + 1), "[C24.poa-time.reconcile.leader-state-asked-for-the-height-right-after-the-latest-known-one]");
    kani::assert(ok == !port_fails, "[C24.poa-time.reconcile.fails-only-if-the-reconciliation-port-fails]");
    // walk the blocks
    let mut h = synced; let mut t = t0; let mut want_imports: [u32; 3] = [0; 3]; let mut wi = 0usize;
    if !port_fails && kind == 2 {
        let bs = [(b1h, b1t), (b2h, b2t)];
        let mut i = 0;
        while i < 2 {
            if i < n_blocks as usize {
                let (bh, bt) = bs[i];
                if bh > h {
                    want_imports[wi] = bh; wi += 1;
                    if fail_of == Some(bh) {
                        // failed import: only a re-sync with what the database reports now
                        let dbn = if db_after.is_some() { db_after } else { db0 };
                        if let Some(d) = dbn { if !db_read_fails && d > h { h = d; } }
                    } else { h = bh; t = bt; }
                }
            }
            i += 1;
        }
    }
    if kind == 2 && n_blocks == 2 && fail_sel == 1 { kani::cover!(wi == 2, "[C24.poa-time.reconcile.cover-first-import-fails-second-proceeds]"); }
    kani::assert(task.last_height == BlockHeight(h) && task.last_timestamp == Tai64(t), "[C24.poa-time.reconcile.height-advances-only-by-successful-imports-or-the-databases-own-height]");
    kani::assert(task.last_height.0 >= h0, "[C24.poa-time.reconcile.height-never-goes-backwards]");
    let imp = *task.block_importer.imported.borrow();
    kani::assert(task.block_importer.n_imported.get() == wi && (wi < 1 || imp[0] == want_imports[0]) && (wi < 2 || imp[1] == want_imports[1]), "[C24.poa-time.reconcile.only-blocks-above-the-latest-known-height-are-imported-in-order]");
    kani::assert(task.normal_production_calls.get() == (if !port_fails && kind == 1 { 1 } else { 0 }), "[C24.poa-time.reconcile.blocks-are-produced-only-as-reconciled-leader]");
}

//@ harness kind=bounded tier=thorough bound="at most 2 blocks to reconcile per call" heavy=1 timeout=3600 extra="-Z async-lib --default-unwind 4"
#[cfg(kani)]
#[kani::proof]
fn c24_reconcile_follower() { reconcile_case(0, 0, 0); }
//@ harness kind=bounded tier=thorough bound="at most 2 blocks to reconcile per call" heavy=1 timeout=3600 extra="-Z async-lib --default-unwind 4"
#[cfg(kani)]
#[kani::proof]
fn c24_reconcile_leader() { reconcile_case(1, 0, 0); }
//@ harness kind=bounded tier=thorough bound="at most 2 blocks to reconcile per call" heavy=1 timeout=3600 extra="-Z async-lib --default-unwind 4"
#[cfg(kani)]
#[kani::proof]
fn c24_reconcile_one_block() { reconcile_case(2, 1, kani::any::<u8>() % 2); }
//@ harness kind=bounded tier=thorough bound="at most 2 blocks to reconcile per call" heavy=1 timeout=3000 extra="-Z async-lib --default-unwind 4"
#[cfg(kani)]
#[kani::proof]
fn c24_reconcile_two_blocks_all_imports_succeed() { reconcile_case(2, 2, 0); }
//@ harness kind=bounded tier=quick bound="at most 2 blocks to reconcile per call" heavy=1 timeout=3000 extra="-Z async-lib --default-unwind 4"
#[cfg(kani)]
#[kani::proof]
fn c24_reconcile_two_blocks_first_import_fails() { reconcile_case(2, 2, 1); }
//@ harness kind=bounded tier=thorough bound="at most 2 blocks to reconcile per call" heavy=1 timeout=3000 extra="-Z async-lib --default-unwind 4"
#[cfg(kani)]
#[kani::proof]
fn c24_reconcile_two_blocks_second_import_fails() { reconcile_case(2, 2, 2); }

// Vacuity canary
//@ harness kind=canary tier=quick expect=C24.poa-time.canary.time-never-advances timeout=900
#[cfg(kani)]
#[kani::proof]
fn c24_canary() {
    let t: u64 = kani::any();
    let r = increase_time(Tai64(t), any_duration());
    if let Ok(x) = &r { kani::assert(x.0 == t, "[C24.poa-time.canary.time-never-advances]"); }
    core::mem::forget(r);
}
