// Scratch crate generated on every run. Real text: increase_time, MainTask::next_time, enum Trigger, enum RequestType.
#![allow(unused)]
use std::time::Duration;

// ---- stand-ins (trusted; listed in unit.toml) ----------------------------------------------------------------
#[derive(Clone, Copy, Debug, PartialEq, Eq, PartialOrd, Ord)]
pub struct Tai64(pub u64);
pub struct Instant { elapsed: Duration }
impl Instant { pub fn elapsed(&self) -> Duration { self.elapsed } }
pub trait GetTime { fn now(&self) -> Tai64; }
pub struct Clock { now: Tai64 }
impl GetTime for Clock { fn now(&self) -> Tai64 { self.now } }

//@ extract crates/services/consensus_module/poa/src/config.rs enum Trigger keep_attrs=1
//@ end

//@ extract crates/services/consensus_module/poa/src/service.rs enum RequestType
//@ end

pub struct MainTask<C> { last_timestamp: Tai64, last_block_created: Instant, trigger: Trigger, clock: C }

impl<C: GetTime> MainTask<C> {
//@ extract crates/services/consensus_module/poa/src/service.rs MainTask::next_time
//@ end
}

//@ extract crates/services/consensus_module/poa/src/service.rs increase_time
//@ end


#[cfg(kani)]
fn any_duration() -> Duration {
    let s: u64 = kani::any();
    let n: u32 = kani::any();
    kani::assume(n < 1_000_000_000);
    Duration::new(s, n)
}

// increase_time: Ok(t) <=> time + secs does not overflow, and then t == time + secs (so t >= time)
//@ harness kind=proof tier=quick timeout=900
#[cfg(kani)]
#[kani::proof]
fn c24_increase_time() {
    let t: u64 = kani::any();
    let d = any_duration();
    let r = increase_time(Tai64(t), d);
    let fits = t.checked_add(d.as_secs());
    kani::cover!(fits.is_none(), "[C24.poa-time.increase_time.cover-overflow]");
    match &r {
        Ok(x) => kani::assert(fits == Some(x.0) && x.0 >= t, "[C24.poa-time.increase_time.is-time-plus-whole-seconds-and-never-earlier]"),
        Err(_) => kani::assert(fits.is_none(), "[C24.poa-time.increase_time.fails-only-on-overflow]"),
    }
    core::mem::forget(r);
}

// next_time: the timestamp proposed for the next block is never earlier than the last block's timestamp;
// interval / open triggers add exactly the configured time on manual requests; on trigger firings the result is
// max(now, last + period) for Open and `now` when the clock is ahead otherwise
//@ harness kind=proof tier=quick timeout=900
#[cfg(kani)]
#[kani::proof]
fn c24_next_time() {
    let last: u64 = kani::any();
    let now: u64 = kani::any();
    let trig_kind: u8 = kani::any();
    kani::assume(trig_kind <= 3);
    let cfg = any_duration();
    let trigger = match trig_kind { 0 => Trigger::Instant, 1 => Trigger::Never, 2 => Trigger::Interval { block_time: cfg }, _ => Trigger::Open { period: cfg } };
    let elapsed = any_duration();
    let task = MainTask { last_timestamp: Tai64(last), last_block_created: Instant { elapsed }, trigger, clock: Clock { now: Tai64(now) } };
    let manual: bool = kani::any();
    let r = task.next_time(if manual { RequestType::Manual } else { RequestType::Trigger });
    kani::cover!(r.is_ok() && !manual && trig_kind == 3 && now < last, "[C24.poa-time.next_time.cover-clock-behind-open-trigger]");
    kani::cover!(r.is_err(), "[C24.poa-time.next_time.cover-overflow]");
    if let Ok(t) = &r {
        let t = t.0;
        kani::assert(t >= last, "[C24.poa-time.next_time.never-earlier-than-last-block]");
        if manual && trig_kind >= 2 {
            kani::assert(Some(t) == last.checked_add(cfg.as_secs()), "[C24.poa-time.next_time.manual-interval-or-open-adds-exactly-configured-time]");
        }
        if manual && trig_kind < 2 {
            kani::assert(Some(t) == last.checked_add(elapsed.as_secs()), "[C24.poa-time.next_time.manual-instant-adds-elapsed-whole-seconds]");
        }
        if !manual && trig_kind == 3 {
            let expected = last.checked_add(cfg.as_secs());
            kani::assert(expected.is_some() && t == (if now > expected.unwrap() { now } else { expected.unwrap() }), "[C24.poa-time.next_time.open-trigger-is-max-of-now-and-last-plus-period]");
        }
        if !manual && trig_kind != 3 && now > last {
            kani::assert(t == now, "[C24.poa-time.next_time.trigger-with-clock-ahead-uses-now]");
        }
    }
    core::mem::forget(r);
}

// Vacuity canary
//@ harness kind=canary tier=quick expect=C24.poa-time.canary.time-never-advances timeout=900
#[cfg(kani)]
#[kani::proof]
fn c24_canary() {
    let t: u64 = kani::any();
    let r = increase_time(Tai64(t), any_duration());
    if let Ok(x) = &r { kani::assert(x.0 == t, "[C24.poa-time.canary.time-never-advances]"); }
    core::mem::forget(r);
}
