// Scratch crate generated on every run. Pasted from /repo's current working tree (header and body byte for byte):
//   executor/src/executor.rs : BlockExecutor::process_da, BlockExecutor::tx_is_valid_variant,
//                              BlockExecutor::relayed_tx_claimed_enough_max_gas
// Stand-ins (trusted, listed in unit.toml): the relayer port is a recording mock (at most one event per DA height, chosen by
// the harness); the Merkle root calculator is an order-sensitive uninterpreted fold over the event hashes it is pushed;
// the FuelBlocks / Messages tables are recording contracts; validate_forced_tx (parsing + predicate checks of a relayed
// transaction, FuelVM territory) answers as the harness chose.
#![allow(unused)]
extern crate alloc;
use core::cell::{Cell, RefCell};
use core::marker::PhantomData;
use std::borrow::Cow;

#[derive(Clone, Copy, Debug, PartialEq, Eq)] pub struct BlockHeight(pub u32);
impl BlockHeight { pub fn pred(self) -> Option<BlockHeight> { self.0.checked_sub(1).map(BlockHeight) } }
#[derive(Clone, Copy, Debug, PartialEq, Eq, PartialOrd, Ord)] pub struct DaBlockHeight(pub u64);
impl From<u64> for DaBlockHeight { fn from(h: u64) -> Self { DaBlockHeight(h) } }
#[derive(Clone, Copy, Debug, PartialEq, Eq)] pub struct Nonce(pub u64);
#[derive(Clone, Copy, Debug, PartialEq, Eq)] pub struct Bytes32(pub u64);
impl AsRef<u64> for Bytes32 { fn as_ref(&self) -> &u64 { &self.0 } }
impl Default for Bytes32 { fn default() -> Self { Bytes32(0) } }
#[derive(Clone, Copy, Debug, PartialEq, Eq)] pub struct Message { pub nonce: Nonce, pub da_height: DaBlockHeight, pub tag: u64 }
impl Message { pub fn da_height(&self) -> DaBlockHeight { self.da_height } pub fn nonce(&self) -> &Nonce { &self.nonce } }
#[derive(Clone, Copy, Debug, PartialEq, Eq)] pub struct RelayedTransaction { pub id: u64, pub valid: bool, pub claimed_max_gas: u64 }
impl RelayedTransaction { pub fn id(&self) -> u64 { self.id } pub fn max_gas(&self) -> u64 { self.claimed_max_gas } }
#[derive(Clone, Copy, Debug, PartialEq, Eq)] pub enum Event { Message(Message), Transaction(RelayedTransaction) }
impl Event { pub fn hash(&self) -> Bytes32 { match self { Event::Message(m) => Bytes32(m.tag ^ m.nonce.0.rotate_left(7) ^ 1), Event::Transaction(t) => Bytes32(t.id.rotate_left(11) ^ 2) } } }
#[derive(Clone, Copy, Debug, PartialEq, Eq)]
pub enum ExecutorEvent { MessageImported(Message), ForcedTransactionFailed { id: u64, block_height: BlockHeight, failure: Text } }
/// error texts are not modelled
#[derive(Clone, Copy, Debug, PartialEq, Eq)] pub struct Text;
#[derive(Clone, Copy, Debug, PartialEq, Eq)] pub struct CheckedTransaction(pub u64);
#[derive(Debug, PartialEq, Eq)]
pub enum ForcedTransactionFailure { InvalidTransactionType, InsufficientMaxGas { claimed_max_gas: u64, actual_max_gas: u64 }, Other }
// error texts are not modelled: `.to_string()` resolves to these inherent methods instead of the fmt machinery
impl ForcedTransactionFailure { pub fn to_string(&self) -> Text { Text } }
#[derive(Debug, PartialEq, Eq)]
pub enum ExecutorError { ExecutingGenesisBlock, PreviousBlockIsNotFound, DaHeightExceededItsLimit, RelayerError(Text), RelayerGivesIncorrectMessages, Storage }
pub type ExecutorResult<T> = Result<T, ExecutorError>;
#[derive(Debug)] pub struct StorageError;
impl From<StorageError> for ExecutorError { fn from(_: StorageError) -> Self { ExecutorError::Storage } }
#[derive(Debug)] pub struct RelayerErr;
impl RelayerErr { pub fn to_string(&self) -> Text { Text } }

/// append-only log with Vec's push/len/index (fixed capacity: the harness never needs more than 3)
pub struct EventLog { pub items: [Option<ExecutorEvent>; 3], pub n: usize }
impl EventLog {
    pub fn new() -> Self { EventLog { items: [None; 3], n: 0 } }
    pub fn push(&mut self, e: ExecutorEvent) { if self.n < 3 { self.items[self.n] = Some(e); } self.n += 1; }
    pub fn len(&self) -> usize { self.n }
}
pub struct ExecutionData { pub events: EventLog, pub event_inbox_root: Bytes32 }
pub struct MemoryInstance;
pub struct ConsensusParameters;
/// order-sensitive uninterpreted fold
pub struct MerkleRootCalculator { acc: u64, n: u64 }
impl MerkleRootCalculator {
    pub fn new() -> Self { MerkleRootCalculator { acc: 0x9e37, n: 0 } }
    pub fn push(&mut self, h: &u64) { self.acc = self.acc.rotate_left(5) ^ *h ^ self.n.wrapping_mul(0x100000001b3); self.n += 1; }
    pub fn root(self) -> u64 { self.acc }
}
impl From<u64> for Bytes32 { fn from(v: u64) -> Self { Bytes32(v) } }
pub const N: usize = 2;
pub struct Relayer { pub first: u64, pub events: [Option<Event>; N], pub fail_at: Option<u64>, pub asked: RefCell<[u64; 3]>, pub n_asked: Cell<usize> }
impl Relayer {
    pub fn get_events(&self, h: &DaBlockHeight) -> Result<Option<Event>, RelayerErr> {
        let k = self.n_asked.get(); if k < 3 { self.asked.borrow_mut()[k] = h.0; } self.n_asked.set(k + 1);
        if self.fail_at == Some(h.0) { return Err(RelayerErr) }
        let i = h.0.wrapping_sub(self.first);
        // at most one event per DA height: an Option is iterated like the Vec the real port returns
        Ok(if i < N as u64 { self.events[i as usize] } else { None })
    }
}
pub struct Header { pub da: DaBlockHeight }
impl Header { pub fn da_height(&self) -> DaBlockHeight { self.da } }
#[derive(Clone)] pub struct CompressedBlock { pub da: DaBlockHeight }
impl CompressedBlock { pub fn header(&self) -> Header { Header { da: self.da } } }
pub struct FuelBlocks; pub struct Messages; pub struct Column;
pub trait KeyValueInspect { type Column; fn store(&self) -> &Store; }
pub struct Store { pub parent: Option<(u32, u64)>, pub read_fails: bool, pub write_fails: bool, pub inserted: RefCell<[Option<(u64, Message)>; 3]>, pub n_inserted: Cell<usize> }
impl KeyValueInspect for Store { type Column = Column; fn store(&self) -> &Store { self } }
pub struct BlockStorageTransaction<D> { pub inner: D }
pub struct BlocksRef<'a>(&'a Store);
pub struct MessagesMut<'a>(&'a Store);
impl<D: KeyValueInspect> BlockStorageTransaction<D> {
    pub fn storage<T>(&self) -> BlocksRef<'_> { BlocksRef(self.inner.store()) }
    pub fn storage_as_mut<T>(&mut self) -> MessagesMut<'_> { MessagesMut(self.inner.store()) }
}
impl<'a> BlocksRef<'a> {
    pub fn get(&self, h: &BlockHeight) -> Result<Option<Cow<'a, CompressedBlock>>, StorageError> {
        if self.0.read_fails { return Err(StorageError) }
        Ok(match self.0.parent { Some((ph, da)) if ph == h.0 => Some(Cow::Owned(CompressedBlock { da: DaBlockHeight(da) })), _ => None })
    }
}
impl<'a> MessagesMut<'a> {
    pub fn insert(&mut self, n: &Nonce, m: &Message) -> Result<(), StorageError> {
        if self.0.write_fails { return Err(StorageError) }
        let k = self.0.n_inserted.get(); if k < 3 { self.0.inserted.borrow_mut()[k] = Some((n.0, *m)); } self.0.n_inserted.set(k + 1);
        Ok(())
    }
}
pub enum Transaction { Script(u64), Create(u64), Mint(u64), Upgrade(u64), Upload(u64), Blob(u64) }
impl Transaction { pub fn max_gas(&self, _p: &ConsensusParameters) -> Result<u64, ()> { match self { Transaction::Script(g) | Transaction::Create(g) | Transaction::Upgrade(g) | Transaction::Upload(g) | Transaction::Blob(g) => Ok(*g), Transaction::Mint(_) => Err(()) } } }

pub struct BlockExecutor { pub relayer: Relayer, pub consensus_params: ConsensusParameters }
impl BlockExecutor {
//@ extract crates/services/executor/src/executor.rs BlockExecutor::process_da
//@ end
//@ extract crates/services/executor/src/executor.rs BlockExecutor::tx_is_valid_variant
//@ end
//@ extract crates/services/executor/src/executor.rs BlockExecutor::relayed_tx_claimed_enough_max_gas
//@ end
    // contract of validate_forced_tx (parse + variant + max-gas + checks against the chain state): answers per the event
    fn validate_forced_tx<D>(relayed_tx: RelayedTransaction, _h: BlockHeight, _p: &ConsensusParameters, _m: &mut MemoryInstance, _s: &BlockStorageTransaction<D>) -> Result<CheckedTransaction, ForcedTransactionFailure> {
        if relayed_tx.valid { Ok(CheckedTransaction(relayed_tx.id)) } else { Err(ForcedTransactionFailure::Other) }
    }
}

// =====================================================================================================================
#[cfg(kani)] fn fmt_stub(_a: core::fmt::Arguments<'_>) -> String { String::new() }
#[cfg(kani)]
fn any_event(h: u64) -> Option<Event> {
    let k: u8 = kani::any();
    kani::assume(k <= 2);
    match k { 0 => None, 1 => Some(Event::Message(Message { nonce: Nonce(kani::any()), da_height: DaBlockHeight(kani::any()), tag: kani::any() })),
              _ => Some(Event::Transaction(RelayedTransaction { id: kani::any(), valid: kani::any(), claimed_max_gas: kani::any() })) }
}

// the block's DA height d against the parent's p, d - p fixed per case (0, 1, 2; also d < p), everything else symbolic
#[cfg(kani)]
fn da_case(gap: i8) {
    let p: u64 = kani::any();
    kani::assume(p >= 1 && p <= u64::MAX - 3);
    let d: u64 = if gap >= 0 { p + gap as u64 } else { p - 1 };
    let events = [any_event(p + 1), any_event(p + 2)];
    let relayer = Relayer { first: p + 1, events, fail_at: if kani::any() { Some(p + 1 + (kani::any::<u8>() % 2) as u64) } else { None }, asked: RefCell::new([0; 3]), n_asked: Cell::new(0) };
    let fail_at = relayer.fail_at;
    let h: u32 = kani::any();
    kani::assume(h >= 1);
    let store = Store { parent: Some((h - 1, p)), read_fails: false, write_fails: kani::any(), inserted: RefCell::new([None; 3]), n_inserted: Cell::new(0) };
    let wf = store.write_fails;
    let mut exec = BlockExecutor { relayer, consensus_params: ConsensusParameters };
    let mut data = ExecutionData { events: EventLog::new(), event_inbox_root: Bytes32(7) };
    let mut st = BlockStorageTransaction { inner: store };
    let r = exec.process_da(BlockHeight(h), DaBlockHeight(d), &mut data, &mut st, &mut MemoryInstance);
    let n_heights: usize = if gap > 0 { gap as usize } else { 0 };
    // reference: walk the heights p+1..=d
    let mut want_root = MerkleRootCalculator::new();
    let mut want_msgs: [Option<Message>; 2] = [None, None]; let mut nm = 0usize;
    let mut want_forced: [Option<u64>; 2] = [None, None]; let mut nf = 0usize;
    let mut want_failed = 0usize;
    let mut error = false;
    let mut asked_expected = 0usize;
    let mut i = 0usize;
    while i < 2 {
        if i < n_heights && !error {
            asked_expected += 1;
            if fail_at == Some(p + 1 + i as u64) { error = true; }
            else if let Some(e) = events[i] {
                want_root.push(&e.hash().0);
                match e {
                    Event::Message(m) => { if m.da_height.0 != p + 1 + i as u64 || wf { error = true; } else { want_msgs[nm] = Some(m); nm += 1; } }
                    Event::Transaction(t) => { if t.valid { want_forced[nf] = Some(t.id); nf += 1; } else { want_failed += 1; } }
                }
            }
        }
        i += 1;
    }
    if gap == 2 { kani::cover!(r.is_ok() && nm == 2, "[C05.executor-kernels.da.cover-two-messages-imported]"); }
    if gap >= 1 { kani::cover!(r.is_err() && fail_at.is_none() && !wf, "[C05.executor-kernels.da.cover-wrong-height-message-rejected]"); }
    kani::assert(r.is_ok() == !error, "[C05.executor-kernels.da.fails-exactly-on-relayer-or-storage-error-or-a-message-of-another-da-height]");
    // the relayer is asked about exactly p+1..=d, in order, once each (up to the first error)
    let asked = *exec.relayer.asked.borrow();
    kani::assert(exec.relayer.n_asked.get() == asked_expected && (asked_expected < 1 || asked[0] == p + 1) && (asked_expected < 2 || asked[1] == p + 2), "[C05.executor-kernels.da.relayer-asked-for-exactly-the-heights-after-the-parents-up-to-the-blocks-in-order]");
    if let Ok(forced) = &r {
        kani::assert(data.event_inbox_root == Bytes32(want_root.root()), "[C05.executor-kernels.da.inbox-root-is-the-fold-of-exactly-these-events-in-order]");
        let ins = *st.inner.inserted.borrow();
        kani::assert(st.inner.n_inserted.get() == nm && (nm < 1 || ins[0] == want_msgs[0].map(|m| (m.nonce.0, m))) && (nm < 2 || ins[1] == want_msgs[1].map(|m| (m.nonce.0, m))), "[C05.executor-kernels.da.each-message-stored-once-under-its-nonce-in-order]");
        let mut imported = 0usize; let mut failed = 0usize; let mut q = 0;
        while q < 2 { if q < data.events.len() { match &data.events.items[q] { Some(ExecutorEvent::MessageImported(m)) => { if Some(*m) != want_msgs[imported.min(1)] { imported = 9; } else { imported += 1; } } Some(ExecutorEvent::ForcedTransactionFailed { .. }) => failed += 1, None => {} } } q += 1; }
        kani::assert(data.events.len() == nm + want_failed && imported == nm && failed == want_failed, "[C05.executor-kernels.da.one-imported-event-per-message-and-one-failed-event-per-invalid-forced-transaction]");
        kani::assert(forced.len() == nf && (nf < 1 || Some(forced[0].0) == want_forced[0]) && (nf < 2 || Some(forced[1].0) == want_forced[1]), "[C05.executor-kernels.da.valid-forced-transactions-are-returned-for-execution-in-order]");
    }
    core::mem::forget(r);
}
//@ harness kind=bounded tier=quick prop=C05 bound="DA height advances by at most 2, at most one event per DA height" timeout=900 extra="--default-unwind 4"
#[cfg(kani)] #[kani::proof] #[kani::stub(alloc::fmt::format, fmt_stub)]
fn c05_da_gap_0() { da_case(0); }
//@ harness kind=bounded tier=quick prop=C05 bound="DA height advances by at most 2, at most one event per DA height" timeout=900 extra="--default-unwind 4"
#[cfg(kani)] #[kani::proof] #[kani::stub(alloc::fmt::format, fmt_stub)]
fn c05_da_gap_1() { da_case(1); }
//@ harness kind=bounded tier=quick prop=C05 bound="DA height advances by at most 2, at most one event per DA height" timeout=900 extra="--default-unwind 4"
#[cfg(kani)] #[kani::proof] #[kani::stub(alloc::fmt::format, fmt_stub)]
fn c05_da_gap_2() { da_case(2); }
//@ harness kind=bounded tier=quick prop=C05 bound="DA height advances by at most 2, at most one event per DA height" timeout=900 extra="--default-unwind 4"
#[cfg(kani)] #[kani::proof] #[kani::stub(alloc::fmt::format, fmt_stub)]
fn c05_da_height_below_parent() { da_case(-1); }

// the two separable checks on a forced transaction
//@ harness kind=proof tier=quick prop=C05 timeout=600
#[cfg(kani)]
#[kani::proof]
fn c05_forced_tx_checks() {
    let k: u8 = kani::any(); kani::assume(k <= 5);
    let g: u64 = kani::any();
    let tx = match k { 0 => Transaction::Script(g), 1 => Transaction::Create(g), 2 => Transaction::Mint(g), 3 => Transaction::Upgrade(g), 4 => Transaction::Upload(g), _ => Transaction::Blob(g) };
    kani::assert(BlockExecutor::tx_is_valid_variant(&tx).is_ok() == (k != 2), "[C05.executor-kernels.forced.every-kind-but-mint-may-be-forced]");
    let relayed = RelayedTransaction { id: 0, valid: true, claimed_max_gas: kani::any() };
    let r = BlockExecutor::relayed_tx_claimed_enough_max_gas(&tx, &relayed, &ConsensusParameters);
    kani::cover!(r.is_err() && k != 2, "[C05.executor-kernels.forced.cover-insufficient-max-gas]");
    kani::assert(r.is_ok() == (k != 2 && g <= relayed.claimed_max_gas), "[C05.executor-kernels.forced.accepted-iff-actual-max-gas-within-the-claimed-max-gas]");
}

// edge: parent DA height at the maximum
//@ harness kind=proof tier=quick prop=C05 timeout=600 extra="--default-unwind 3"
#[cfg(kani)] #[kani::proof] #[kani::stub(alloc::fmt::format, fmt_stub)]
fn c05_da_height_limit_and_missing_parent() {
    let h: u32 = kani::any();
    let parent_known: bool = kani::any();
    let store = Store { parent: if parent_known && h >= 1 { Some((h - 1, u64::MAX)) } else { None }, read_fails: kani::any(), write_fails: false, inserted: RefCell::new([None; 3]), n_inserted: Cell::new(0) };
    let rf = store.read_fails;
    let relayer = Relayer { first: 0, events: [None, None], fail_at: None, asked: RefCell::new([0; 3]), n_asked: Cell::new(0) };
    let mut exec = BlockExecutor { relayer, consensus_params: ConsensusParameters };
    let mut data = ExecutionData { events: EventLog::new(), event_inbox_root: Bytes32(7) };
    let mut st = BlockStorageTransaction { inner: store };
    let r = exec.process_da(BlockHeight(h), DaBlockHeight(kani::any()), &mut data, &mut st, &mut MemoryInstance);
    kani::assert(r.is_err() && exec.relayer.n_asked.get() == 0 && data.events.len() == 0, "[C05.executor-kernels.da.genesis-unknown-parent-or-exhausted-da-height-fails-before-asking-the-relayer]");
    if h == 0 { kani::assert(r == Err(ExecutorError::ExecutingGenesisBlock), "[C05.executor-kernels.da.genesis-block-has-no-da-events]"); }
    core::mem::forget(r);
}

// Vacuity canary
//@ harness kind=canary tier=quick prop=C05 expect=C05.executor-kernels.canary.never-imports timeout=900 extra="--default-unwind 4"
#[cfg(kani)] #[kani::proof] #[kani::stub(alloc::fmt::format, fmt_stub)]
fn c05_canary() {
    let p: u64 = 5;
    let relayer = Relayer { first: 6, events: [Some(Event::Message(Message { nonce: Nonce(1), da_height: DaBlockHeight(6), tag: 3 })), None], fail_at: None, asked: RefCell::new([0; 3]), n_asked: Cell::new(0) };
    let store = Store { parent: Some((0, p)), read_fails: false, write_fails: false, inserted: RefCell::new([None; 3]), n_inserted: Cell::new(0) };
    let mut exec = BlockExecutor { relayer, consensus_params: ConsensusParameters };
    let mut data = ExecutionData { events: EventLog::new(), event_inbox_root: Bytes32(7) };
    let mut st = BlockStorageTransaction { inner: store };
    let r = exec.process_da(BlockHeight(1), DaBlockHeight(6), &mut data, &mut st, &mut MemoryInstance);
    kani::assert(data.events.len() == 0, "[C05.executor-kernels.canary.never-imports]");
    core::mem::forget(r);
}
