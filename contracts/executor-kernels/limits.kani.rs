// Scratch crate generated on every run. Pasted from /repo's current working tree (header and body byte for byte):
//   executor/src/executor.rs : BlockExecutor::process_l2_txs, max_tx_count (the default, non-`limited-tx-count` one)
// Stand-ins (trusted, listed in unit.toml): the transaction source is a recording mock handing out scripted batches of
// at most 2 transactions; execute_transaction_and_commit is a stand-in that, per transaction, either fails (nothing
// changes) or succeeds and grows the block's used gas / size / count by amounts chosen by the harness (what a real
// execution may use is bounded by the transaction's max gas - assumed); preconfirmation plumbing records nothing.
#![allow(unused)]
use core::cell::{Cell, RefCell};

pub type Word = u64;
#[derive(Clone, Copy, Debug, PartialEq, Eq)] pub struct TxId(pub u64);
#[derive(Clone, Copy, Debug, PartialEq, Eq)] pub struct ContractId(pub u64);
#[derive(Clone, Copy, Debug, PartialEq, Eq)] pub struct BlockHeight(pub u32);
#[derive(Debug)] pub struct Text;
#[derive(Debug)]
pub enum ExecutorError { GasOverflow(Text, u64, u64), Exec, MaxGas }
impl ExecutorError { pub fn to_string(&self) -> Text { Text } }
pub type ExecutorResult<T> = Result<T, ExecutorError>;
macro_rules! format { ($($t:tt)*) => { Text } }
pub struct ChainId(pub u64);
pub struct ConsensusParameters { pub block_gas_limit: u64, pub block_transaction_size_limit: u64, pub chain: u64 }
impl ConsensusParameters {
    pub fn block_gas_limit(&self) -> u64 { self.block_gas_limit }
    pub fn block_transaction_size_limit(&self) -> u64 { self.block_transaction_size_limit }
    pub fn chain_id(&self) -> ChainId { ChainId(self.chain) }
}
#[derive(Clone, Copy, Debug)] pub struct MaybeCheckedTransaction { pub raw: u64, pub max_gas: u64, pub max_gas_fails: bool }
impl MaybeCheckedTransaction {
    pub fn id(&self, c: &ChainId) -> TxId { TxId(self.raw ^ c.0) }
    pub fn max_gas(&self, _p: &ConsensusParameters) -> ExecutorResult<u64> { if self.max_gas_fails { Err(ExecutorError::MaxGas) } else { Ok(self.max_gas) } }
}
pub struct MemoryInstance;
pub struct Header { pub height: BlockHeight }
impl Header { pub fn height(&self) -> &BlockHeight { &self.height } }
/// lists with Vec's push / last / is_empty (fixed capacity)
pub struct List<T> { pub items: [Option<T>; 4], pub n: usize }
impl<T> List<T> {
    pub fn new() -> Self { List { items: [const { None }; 4], n: 0 } }
    pub fn push(&mut self, t: T) { if self.n < 4 { self.items[self.n] = Some(t); } self.n += 1; }
    pub fn last(&self) -> Option<&T> { if self.n == 0 || self.n > 4 { None } else { self.items[self.n - 1].as_ref() } }
    pub fn is_empty(&self) -> bool { self.n == 0 }
}
macro_rules! vec { () => { List::new() } }
pub struct Transaction(pub u64);
pub struct PartialFuelBlock { pub header: Header, pub transactions: List<Transaction> }
pub struct TxStatus { pub result: u8 }
pub struct ExecutionData { pub used_gas: u64, pub used_size: u32, pub tx_count: u16, pub tx_status: List<TxStatus>, pub skipped_transactions: List<(TxId, ExecutorError)> }
pub struct Preconfirmation { pub tx_id: TxId, pub status: PreconfirmationStatus }
pub enum PreconfirmationStatus { SqueezedOut(SqueezedOut), Other }
pub struct SqueezedOut;
impl SqueezedOut { pub fn new(_r: Text, _id: TxId) -> Self { SqueezedOut } }
pub fn convert_tx_execution_result_to_preconfirmation(_tx: &Transaction, tx_id: TxId, _r: &u8, _h: BlockHeight, _i: u16) -> Preconfirmation { Preconfirmation { tx_id, status: PreconfirmationStatus::Other } }
pub struct PreconfSender;
impl PreconfSender { pub fn try_send(&self, _s: List<Preconfirmation>) -> List<Preconfirmation> { List::new() } pub async fn send(&self, _s: List<Preconfirmation>) {} }
pub struct StorageTransaction<T>(pub T);
pub trait KeyValueInspect { type Column; }
pub struct Column; pub struct St; impl KeyValueInspect for St { type Column = Column; }

/// what the source was asked (gas, count, size) at each call, and the block totals at that moment
pub struct Batch(pub [Option<MaybeCheckedTransaction>; 2], pub usize);
impl Iterator for Batch { type Item = MaybeCheckedTransaction; fn next(&mut self) -> Option<MaybeCheckedTransaction> { while self.1 < 2 { let t = self.0[self.1].take(); self.1 += 1; if t.is_some() { return t } } None } }
pub trait TransactionsSource { fn next(&self, gas_limit: u64, tx_count_limit: u16, size_limit: u32) -> Batch; }
pub struct Source { pub script: RefCell<[[Option<MaybeCheckedTransaction>; 2]; 2]>, pub calls: Cell<usize>, pub asked: RefCell<[(u64, u16, u32); 3]> }
impl TransactionsSource for Source {
    fn next(&self, gas_limit: u64, tx_count_limit: u16, size_limit: u32) -> Batch {
        let k = self.calls.get(); self.calls.set(k + 1);
        if k < 3 { self.asked.borrow_mut()[k] = (gas_limit, tx_count_limit, size_limit); }
        if k < 2 { Batch(self.script.borrow_mut()[k], 0) } else { Batch([None, None], 0) }
    }
}
pub struct Components<TxSource> { pub transactions_source: TxSource, pub coinbase_recipient: ContractId, pub gas_price: Word, pub header_to_produce: u8 }

// the block totals as they were when the source was asked the k-th time (recorded by the stand-in executor via statics)
static mut TOTALS_AT_CALL: [(u64, u32, u16); 3] = [(0, 0, 0); 3];
static mut EXEC_PLAN: [(bool, u64, u32); 4] = [(false, 0, 0); 4]; // per executed transaction: fails?, gas it uses, bytes it uses
static mut EXEC_N: usize = 0;
static mut EXECUTED_MAX_GAS_OVER_REMAINING: bool = false;
static mut LIMIT_GAS: u64 = 0;

pub struct BlockExecutor { pub consensus_params: ConsensusParameters, pub preconfirmation_sender: PreconfSender }
impl BlockExecutor {
//@ extract crates/services/executor/src/executor.rs BlockExecutor::process_l2_txs
//@ end
    // contract of execute_transaction_and_commit (C04): a failing transaction changes nothing; a succeeding one is added to the
    // block, counted, and grows used gas / size
    fn execute_transaction_and_commit<'a, W>(&'a self, block: &'a mut PartialFuelBlock, _st: &mut StorageTransaction<W>, data: &mut ExecutionData, tx: MaybeCheckedTransaction, _g: Word, _c: ContractId, _m: &mut MemoryInstance) -> ExecutorResult<()> {
        unsafe {
            let k = EXEC_N; EXEC_N += 1;
            if tx.max_gas > LIMIT_GAS.saturating_sub(data.used_gas) { EXECUTED_MAX_GAS_OVER_REMAINING = true; }
            let (fails, gas, size) = if k < 4 { EXEC_PLAN[k] } else { (true, 0, 0) };
            if fails { return Err(ExecutorError::Exec) }
            // a transaction never uses more gas than its max gas (assumed of the VM)
            let gas = if gas > tx.max_gas { tx.max_gas } else { gas };
            data.used_gas = data.used_gas.saturating_add(gas);
            data.used_size = data.used_size.saturating_add(size);
            data.tx_count = data.tx_count.saturating_add(1);
            data.tx_status.push(TxStatus { result: 0 });
            block.transactions.push(Transaction(tx.raw));
            Ok(())
        }
    }
}
//@ extract crates/services/executor/src/executor.rs max_tx_count#1
//@ end

// =====================================================================================================================
// The producer's limit bookkeeping: every time the transaction source is asked, it is asked for exactly what is left of the
// block's gas, size and transaction-count limits at that moment; no transaction whose max gas exceeds the remaining gas is
// executed; so the block's used gas never exceeds the gas limit.
#[cfg(kani)]
fn limits_case(two_per_batch: bool) {
    let params = ConsensusParameters { block_gas_limit: kani::any(), block_transaction_size_limit: kani::any(), chain: 0 };
    let (gl, sl64) = (params.block_gas_limit, params.block_transaction_size_limit);
    let sl: u32 = if sl64 > u32::MAX as u64 { u32::MAX } else { sl64 as u32 };
    unsafe { LIMIT_GAS = gl; EXEC_N = 0; EXECUTED_MAX_GAS_OVER_REMAINING = false; EXEC_PLAN = [(kani::any(), kani::any(), kani::any()), (kani::any(), kani::any(), kani::any()), (kani::any(), kani::any(), kani::any()), (kani::any(), kani::any(), kani::any())]; }
    let tx = || -> Option<MaybeCheckedTransaction> { if kani::any() { Some(MaybeCheckedTransaction { raw: kani::any(), max_gas: kani::any(), max_gas_fails: false }) } else { None } };
    let second = |t: Option<MaybeCheckedTransaction>| if two_per_batch { t } else { None };
    let source = Source { script: RefCell::new([[tx(), second(tx())], [tx(), second(tx())]]), calls: Cell::new(0), asked: RefCell::new([(0, 0, 0); 3]) };
    let mut exec = BlockExecutor { consensus_params: params, preconfirmation_sender: PreconfSender };
    let mut data = ExecutionData { used_gas: kani::any(), used_size: kani::any(), tx_count: kani::any(), tx_status: List::new(), skipped_transactions: List::new() };
    let (g0, s0, c0) = (data.used_gas, data.used_size, data.tx_count);
    let mut block = PartialFuelBlock { header: Header { height: BlockHeight(1) }, transactions: List::new() };
    let components = Components { transactions_source: source, coinbase_recipient: ContractId(0), gas_price: kani::any(), header_to_produce: 0 };
    let mut st = StorageTransaction(St);
    let r = kani::block_on(exec.process_l2_txs(&mut block, &components, &mut st, &mut data, &mut MemoryInstance));
    core::mem::forget(r);
    let calls = components.transactions_source.calls.get();
    let asked = *components.transactions_source.asked.borrow();
    kani::cover!(calls >= 2 && data.used_gas > g0, "[C03.executor-kernels.limits.cover-second-round-after-gas-was-used]");
    // first question: what is left after what the block already used (relayed transactions, earlier rounds)
    kani::assert(calls >= 1 && asked[0] == (gl.saturating_sub(g0), max_tx_count().saturating_sub(c0), sl.saturating_sub(s0)), "[C03.executor-kernels.limits.source-first-asked-for-exactly-the-remaining-gas-count-and-size]");
    kani::assert(!unsafe { EXECUTED_MAX_GAS_OVER_REMAINING }, "[C03.executor-kernels.limits.no-transaction-executed-whose-max-gas-exceeds-the-remaining-gas]");
    // the last question asked reflects the final totals (every later round is asked with up-to-date remainders)
    if calls >= 2 && calls <= 3 {
        let last = asked[calls - 1];
        kani::assert(last == (gl.saturating_sub(data.used_gas), max_tx_count().saturating_sub(data.tx_count), sl.saturating_sub(data.used_size)), "[C03.executor-kernels.limits.later-rounds-asked-for-the-remainders-after-what-was-executed]");
    }
    if g0 <= gl { kani::assert(data.used_gas <= gl, "[C03.executor-kernels.limits.used-gas-never-exceeds-the-block-gas-limit]"); }
}

//@ harness kind=bounded tier=quick prop=C03 bound="at most 2 batches of at most 1 transaction from the source" timeout=900 extra="-Z async-lib --default-unwind 5"
#[cfg(kani)]
#[kani::proof]
fn c03_l2_limits_one_per_batch() { limits_case(false) }
//@ harness kind=bounded tier=thorough prop=C03 bound="at most 2 batches of at most 2 transactions from the source" timeout=1800 extra="-Z async-lib --default-unwind 5"
#[cfg(kani)]
#[kani::proof]
fn c03_l2_limits_two_per_batch() { limits_case(true) }
