// Scratch crate generated on every run. Pasted from /repo's current working tree (header and body byte for byte), all from
// crates/services/executor/src/executor.rs:
//   BlockExecutor::{spend_input_utxos, verify_inputs_exist_and_values_match, get_coin_or_default, insert_coin}
// Stand-ins (trusted, listed in unit.toml): the Coins / Messages / ContractsLatestUtxo tables of the transaction's storage
// are their map-semantics CONTRACT, exact for one probed key per table and nondeterministic elsewhere (so the proofs hold
// for UTXO sets of any size); fuel-tx Input keeps the seven variants with the fields these functions read; coin / message
// `matches_input` is an uninterpreted comparison of the recorded fields.
#![allow(unused)]
use core::cell::{Cell, RefCell};
use core::marker::PhantomData;
use std::borrow::Cow;

pub type Word = u64;
#[derive(Clone, Copy, Debug, PartialEq, Eq, Default)] pub struct UtxoId(pub u64);
#[derive(Clone, Copy, Debug, PartialEq, Eq, Default)] pub struct Nonce(pub u64);
#[derive(Clone, Copy, Debug, PartialEq, Eq, Default)] pub struct Address(pub u64);
#[derive(Clone, Copy, Debug, PartialEq, Eq, Default)] pub struct AssetId(pub u64);
#[derive(Clone, Copy, Debug, PartialEq, Eq, Default)] pub struct ContractId(pub u64);
#[derive(Clone, Copy, Debug, PartialEq, Eq, Default, PartialOrd, Ord)] pub struct DaBlockHeight(pub u64);
#[derive(Clone, Copy, Debug, PartialEq, Eq, Default)] pub struct BlockHeight(pub u32);
#[derive(Clone, Copy, Debug, PartialEq, Eq, Default)] pub struct TxPointer(pub BlockHeight, pub u16);
impl TxPointer { pub fn new(h: BlockHeight, i: u16) -> Self { TxPointer(h, i) } }

pub struct CoinSigned { pub utxo_id: UtxoId, pub owner: Address, pub amount: Word, pub asset_id: AssetId, pub witness: u8 }
pub struct CoinPredicate { pub utxo_id: UtxoId, pub owner: Address, pub amount: Word, pub asset_id: AssetId, pub predicate: u8 }
pub struct ContractInput { pub contract_id: ContractId }
pub struct MessageCoinSigned { pub nonce: Nonce, pub amount: Word, pub recipient: Address }
pub struct MessageCoinPredicate { pub nonce: Nonce, pub amount: Word, pub recipient: Address }
pub struct MessageDataSigned { pub nonce: Nonce, pub amount: Word, pub recipient: Address }
pub struct MessageDataPredicate { pub nonce: Nonce, pub amount: Word, pub recipient: Address }
pub enum Input {
    CoinSigned(CoinSigned), CoinPredicate(CoinPredicate), Contract(ContractInput),
    MessageCoinSigned(MessageCoinSigned), MessageCoinPredicate(MessageCoinPredicate),
    MessageDataSigned(MessageDataSigned), MessageDataPredicate(MessageDataPredicate),
}
impl Input {
    fn coin_fields(&self) -> Option<(Address, Word, AssetId)> { match self { Input::CoinSigned(c) => Some((c.owner, c.amount, c.asset_id)), Input::CoinPredicate(c) => Some((c.owner, c.amount, c.asset_id)), _ => None } }
    fn message_fields(&self) -> Option<(Address, Word)> { match self { Input::MessageCoinSigned(m) => Some((m.recipient, m.amount)), Input::MessageCoinPredicate(m) => Some((m.recipient, m.amount)), Input::MessageDataSigned(m) => Some((m.recipient, m.amount)), Input::MessageDataPredicate(m) => Some((m.recipient, m.amount)), _ => None } }
}
#[derive(Clone, Copy, Debug, PartialEq, Eq, Default)]
pub struct CompressedCoinV1 { pub owner: Address, pub amount: Word, pub asset_id: AssetId, pub tx_pointer: TxPointer }
#[derive(Clone, Copy, Debug, PartialEq, Eq, Default)]
pub struct CompressedCoin(pub CompressedCoinV1);
impl From<CompressedCoinV1> for CompressedCoin { fn from(c: CompressedCoinV1) -> Self { CompressedCoin(c) } }
#[derive(Clone, Copy, Debug, PartialEq, Eq)]
pub struct Coin { pub utxo_id: UtxoId, pub owner: Address, pub amount: Word, pub asset_id: AssetId, pub tx_pointer: TxPointer }
impl CompressedCoin {
    pub fn uncompress(self, utxo_id: UtxoId) -> Coin { Coin { utxo_id, owner: self.0.owner, amount: self.0.amount, asset_id: self.0.asset_id, tx_pointer: self.0.tx_pointer } }
    pub fn matches_input(&self, input: &Input) -> Option<bool> { input.coin_fields().map(|(o, a, s)| o == self.0.owner && a == self.0.amount && s == self.0.asset_id) }
}
#[derive(Clone, Copy, Debug, PartialEq, Eq)]
pub struct Message { pub nonce: Nonce, pub recipient: Address, pub amount: Word, pub da_height: DaBlockHeight }
impl Message {
    pub fn da_height(&self) -> DaBlockHeight { self.da_height }
    pub fn matches_input(&self, input: &Input) -> Option<bool> { input.message_fields().map(|(r, a)| r == self.recipient && a == self.amount) }
}
#[derive(Clone, Copy, Debug, PartialEq, Eq)]
pub enum ExecutorEvent { CoinCreated(Coin), CoinConsumed(Coin), MessageImported(Message), MessageConsumed(Message) }
#[derive(Debug, PartialEq, Eq)]
pub enum TransactionValidityError { CoinMismatch(UtxoId), CoinDoesNotExist(UtxoId), ContractDoesNotExist(ContractId), MessageSpendTooEarly(Nonce), MessageMismatch(Nonce), MessageDoesNotExist(Nonce) }
#[derive(Debug, PartialEq, Eq)]
pub enum ExecutorError { TransactionValidity(TransactionValidityError), MessageDoesNotExist(Nonce), OutputAlreadyExists, Storage }
impl From<TransactionValidityError> for ExecutorError { fn from(e: TransactionValidityError) -> Self { ExecutorError::TransactionValidity(e) } }
pub type ExecutorResult<T> = Result<T, ExecutorError>;
#[derive(Debug)] pub struct StorageError;
impl From<StorageError> for ExecutorError { fn from(_: StorageError) -> Self { ExecutorError::Storage } }
pub struct ExecutionData { pub tx_count: u16, pub events: Vec<ExecutorEvent> }
pub struct ExecutionOptions { pub forbid_fake_coins: bool }

// ---- storage contract
pub struct Coins; pub struct Messages; pub struct ContractsLatestUtxo; pub struct Column;
pub trait KeyValueInspect { type Column; fn store(&self) -> &Store; }
pub struct Slot<K, V> { pub probe: K, pub value: RefCell<Option<V>>, pub touched_elsewhere: Cell<u32>, pub removals: Cell<u32>, pub writes: Cell<u32> }
pub struct Store { pub coins: Slot<UtxoId, CompressedCoin>, pub msgs: Slot<Nonce, Message>, pub contracts: Slot<ContractId, ()>, pub fails: bool }
impl KeyValueInspect for Store { type Column = Column; fn store(&self) -> &Store { self } }
pub trait Table { type Key: PartialEq + Copy; type Value: Clone; fn slot(s: &Store) -> &Slot<Self::Key, Self::Value>; }
impl Table for Coins { type Key = UtxoId; type Value = CompressedCoin; fn slot(s: &Store) -> &Slot<UtxoId, CompressedCoin> { &s.coins } }
impl Table for Messages { type Key = Nonce; type Value = Message; fn slot(s: &Store) -> &Slot<Nonce, Message> { &s.msgs } }
impl Table for ContractsLatestUtxo { type Key = ContractId; type Value = (); fn slot(s: &Store) -> &Slot<ContractId, ()> { &s.contracts } }
pub struct StorageTransaction<T> { pub inner: T }
pub type TxStorageTransaction<T> = StorageTransaction<T>;
pub struct TableRef<'a, Tb>(&'a Store, PhantomData<Tb>);
impl<T: KeyValueInspect> StorageTransaction<T> { pub fn storage<Tb: Table>(&self) -> TableRef<'_, Tb> { TableRef(self.inner.store(), PhantomData) } }
impl<'a, Tb: Table> TableRef<'a, Tb> {
    pub fn get(&self, k: &Tb::Key) -> Result<Option<Cow<'a, Tb::Value>>, StorageError> {
        if self.0.fails { return Err(StorageError) }
        let s = Tb::slot(self.0);
        if *k == s.probe { Ok(s.value.borrow().clone().map(Cow::Owned)) } else { s.touched_elsewhere.set(s.touched_elsewhere.get() + 1); Ok(None) }
    }
    pub fn contains_key(&self, k: &Tb::Key) -> Result<bool, StorageError> { Ok(self.get(k)?.is_some()) }
    pub fn take(&self, k: &Tb::Key) -> Result<Option<Tb::Value>, StorageError> {
        if self.0.fails { return Err(StorageError) }
        let s = Tb::slot(self.0);
        if *k == s.probe { let v = s.value.borrow_mut().take(); if v.is_some() { s.removals.set(s.removals.get() + 1); } Ok(v) } else { s.touched_elsewhere.set(s.touched_elsewhere.get() + 1); Ok(None) }
    }
    // (the whole table API is offered so that a change of WHICH operation the code uses still compiles and is judged by its effect)
    pub fn insert(&self, k: &Tb::Key, v: &Tb::Value) -> Result<(), StorageError> { self.replace(k, v).map(|_| ()) }
    pub fn remove(&self, k: &Tb::Key) -> Result<(), StorageError> { self.take(k).map(|_| ()) }
    pub fn replace(&self, k: &Tb::Key, v: &Tb::Value) -> Result<Option<Tb::Value>, StorageError> {
        if self.0.fails { return Err(StorageError) }
        let s = Tb::slot(self.0);
        s.writes.set(s.writes.get() + 1);
        if *k == s.probe { Ok(s.value.borrow_mut().replace(v.clone())) } else { s.touched_elsewhere.set(s.touched_elsewhere.get() + 1); Ok(None) }
    }
}

pub struct BlockExecutor { pub options: ExecutionOptions }
impl BlockExecutor {
//@ extract crates/services/executor/src/executor.rs BlockExecutor::verify_inputs_exist_and_values_match
//@ end
//@ extract crates/services/executor/src/executor.rs BlockExecutor::spend_input_utxos
//@ end
//@ extract crates/services/executor/src/executor.rs BlockExecutor::get_coin_or_default
//@ end
//@ extract crates/services/executor/src/executor.rs BlockExecutor::insert_coin
//@ end
}
pub struct S(pub Store);
impl core::ops::Deref for S { type Target = Store; fn deref(&self) -> &Store { &self.0 } }
impl KeyValueInspect for S { type Column = Column; fn store(&self) -> &Store { &self.0 } }

// =====================================================================================================================
#[cfg(kani)]
fn any_store(u: UtxoId, n: Nonce, c: ContractId) -> Store {
    let coin = if kani::any() { Some(CompressedCoin(CompressedCoinV1 { owner: Address(kani::any()), amount: kani::any(), asset_id: AssetId(kani::any()), tx_pointer: TxPointer(BlockHeight(kani::any()), kani::any()) })) } else { None };
    let msg = if kani::any() { Some(Message { nonce: n, recipient: Address(kani::any()), amount: kani::any(), da_height: DaBlockHeight(kani::any()) }) } else { None };
    let con = if kani::any() { Some(()) } else { None };
    Store { coins: Slot { probe: u, value: RefCell::new(coin), touched_elsewhere: Cell::new(0), removals: Cell::new(0), writes: Cell::new(0) },
            msgs: Slot { probe: n, value: RefCell::new(msg), touched_elsewhere: Cell::new(0), removals: Cell::new(0), writes: Cell::new(0) },
            contracts: Slot { probe: c, value: RefCell::new(con), touched_elsewhere: Cell::new(0), removals: Cell::new(0), writes: Cell::new(0) }, fails: kani::any() }
}
#[cfg(kani)]
fn any_input(kind: u8, u: UtxoId, n: Nonce, c: ContractId) -> Input {
    let (owner, amount, asset) = (Address(kani::any()), kani::any::<u64>(), AssetId(kani::any()));
    match kind {
        0 => Input::CoinSigned(CoinSigned { utxo_id: u, owner, amount, asset_id: asset, witness: 0 }),
        1 => Input::CoinPredicate(CoinPredicate { utxo_id: u, owner, amount, asset_id: asset, predicate: 0 }),
        2 => Input::Contract(ContractInput { contract_id: c }),
        3 => Input::MessageCoinSigned(MessageCoinSigned { nonce: n, amount, recipient: owner }),
        4 => Input::MessageCoinPredicate(MessageCoinPredicate { nonce: n, amount, recipient: owner }),
        5 => Input::MessageDataSigned(MessageDataSigned { nonce: n, amount, recipient: owner }),
        _ => Input::MessageDataPredicate(MessageDataPredicate { nonce: n, amount, recipient: owner }),
    }
}

// ---- C02/C04: spending one input (every input kind, reverted or not, utxo validation on or off)
//@ harness kind=proof tier=quick prop=C02 timeout=600 extra="--default-unwind 3"
#[cfg(kani)]
#[kani::proof]
fn c02_spend_one_input() { spend_one_input_case(); }
// the same contract run serves C04 (its reverted-transaction clauses carry C04 tags)
//@ harness kind=proof tier=quick prop=C04 timeout=600 extra="--default-unwind 3"
#[cfg(kani)]
#[kani::proof]
fn c04_spend_one_input() { spend_one_input_case(); }
#[cfg(kani)]
fn spend_one_input_case() {
    let (u, n, c) = (UtxoId(kani::any()), Nonce(kani::any()), ContractId(kani::any()));
    let store = any_store(u, n, c);
    let (coin0, msg0, fails) = (*store.coins.value.borrow(), *store.msgs.value.borrow(), store.fails);
    let kind: u8 = kani::any();
    kani::assume(kind <= 6);
    let input = any_input(kind, u, n, c);
    let reverted: bool = kani::any();
    let exec = BlockExecutor { options: ExecutionOptions { forbid_fake_coins: kani::any() } };
    let mut db = StorageTransaction { inner: S(store) };
    let mut data = ExecutionData { tx_count: kani::any(), events: Vec::new() };
    let r = exec.spend_input_utxos(core::slice::from_ref(&input), &mut db, reverted, &mut data);
    let st = &db.inner.0;
    let (coin1, msg1) = (*st.coins.value.borrow(), *st.msgs.value.borrow());
    let is_coin = kind <= 1; let is_msg = kind >= 3; let is_data_msg = kind >= 5;
    kani::cover!(r.is_ok() && is_coin && coin0.is_some(), "[C02.executor-kernels.spend.cover-coin-spent]");
    kani::cover!(r.is_err() && is_msg && !fails, "[C02.executor-kernels.spend.cover-missing-message-rejected]");
    kani::assert(st.coins.touched_elsewhere.get() == 0 && st.msgs.touched_elsewhere.get() == 0 && st.coins.writes.get() == 0 && st.msgs.writes.get() == 0, "[C02.executor-kernels.spend.touches-only-the-inputs-own-entry-and-never-writes]");
    if is_coin {
        kani::assert(msg1 == msg0, "[C02.executor-kernels.spend.coin-input-leaves-messages-untouched]");
        if r.is_ok() {
            kani::assert(coin1.is_none(), "[C02.executor-kernels.spend.spent-coin-is-gone]");
            kani::assert(data.events.len() == 1, "[C02.executor-kernels.spend.exactly-one-event-per-spent-input]");
            match (coin0, data.events[0]) {
                (Some(c0), ExecutorEvent::CoinConsumed(e)) => kani::assert(e == c0.uncompress(u), "[C02.executor-kernels.spend.coin-consumed-event-is-the-stored-coin]"),
                (None, ExecutorEvent::CoinConsumed(e)) => kani::assert(!exec.options.forbid_fake_coins && e.utxo_id == u, "[C02.executor-kernels.spend.missing-coin-accepted-only-without-utxo-validation]"),
                _ => kani::assert(false, "[C02.executor-kernels.spend.coin-consumed-event-is-the-stored-coin]"),
            }
        } else {
            kani::assert(data.events.len() == 0 && (fails || (coin0.is_none() && exec.options.forbid_fake_coins)), "[C02.executor-kernels.spend.coin-spend-fails-only-if-missing-under-utxo-validation]");
        }
    }
    if is_msg {
        kani::assert(coin1 == coin0, "[C02.executor-kernels.spend.message-input-leaves-coins-untouched]");
        if is_data_msg && reverted {
            // C04: retryable message-data inputs of a reverted transaction stay spendable and produce no event
            kani::assert(r.is_ok() && msg1 == msg0 && data.events.len() == 0 && st.msgs.removals.get() == 0, "[C04.executor-kernels.spend.reverted-transaction-keeps-its-message-data-inputs-and-reports-nothing]");
        } else if r.is_ok() {
            kani::assert(msg0.is_some() && msg1.is_none() && data.events.len() == 1 && data.events[0] == ExecutorEvent::MessageConsumed(msg0.unwrap()), "[C02.executor-kernels.spend.message-existed-is-removed-and-reported-once]");
        } else {
            kani::assert(data.events.len() == 0 && (fails || msg0.is_none()) && msg1 == msg0, "[C02.executor-kernels.spend.missing-message-is-an-error-and-changes-nothing]");
        }
    }
    if kind == 2 { kani::assert(r.is_ok() && coin1 == coin0 && msg1 == msg0 && data.events.len() == 0, "[C02.executor-kernels.spend.contract-input-spends-nothing]"); }
    // C04: coin and message-coin inputs are consumed exactly as for a successful transaction
    if reverted && !is_data_msg && r.is_ok() && (is_coin || is_msg) {
        kani::assert(data.events.len() == 1, "[C04.executor-kernels.spend.reverted-transaction-still-consumes-coin-and-message-coin-inputs]");
    }
}

// ---- C02: the same message cannot be spent twice (second take sees it gone)
//@ harness kind=proof tier=quick prop=C02 timeout=600 extra="--default-unwind 4"
#[cfg(kani)]
#[kani::proof]
fn c02_same_message_twice() {
    let (u, n, c) = (UtxoId(kani::any()), Nonce(kani::any()), ContractId(kani::any()));
    let store = any_store(u, n, c);
    kani::assume(!store.fails);
    let k1: u8 = kani::any(); let k2: u8 = kani::any();
    kani::assume(k1 >= 3 && k1 <= 6 && k2 >= 3 && k2 <= 6);
    let inputs = [any_input(k1, u, n, c), any_input(k2, u, n, c)];
    let exec = BlockExecutor { options: ExecutionOptions { forbid_fake_coins: kani::any() } };
    let mut db = StorageTransaction { inner: S(store) };
    let mut data = ExecutionData { tx_count: 0, events: Vec::new() };
    let r = exec.spend_input_utxos(&inputs, &mut db, false, &mut data);
    kani::assert(r.is_err() && db.inner.0.msgs.removals.get() <= 1, "[C02.executor-kernels.spend.no-message-is-spent-twice]");
}

// ---- C02: inputs are checked against the UTXO set before execution
//@ harness kind=proof tier=quick prop=C02 timeout=600 extra="--default-unwind 3"
#[cfg(kani)]
#[kani::proof]
fn c02_verify_inputs_exist() {
    let (u, n, c) = (UtxoId(kani::any()), Nonce(kani::any()), ContractId(kani::any()));
    let store = any_store(u, n, c);
    let (coin0, msg0, con0, fails) = (*store.coins.value.borrow(), *store.msgs.value.borrow(), *store.contracts.value.borrow(), store.fails);
    let kind: u8 = kani::any();
    kani::assume(kind <= 6);
    let input = any_input(kind, u, n, c);
    let da = DaBlockHeight(kani::any());
    let exec = BlockExecutor { options: ExecutionOptions { forbid_fake_coins: true } };
    let db = StorageTransaction { inner: S(store) };
    let r = exec.verify_inputs_exist_and_values_match(&db, core::slice::from_ref(&input), da);
    let expect = !fails && match kind {
        0 | 1 => coin0.map_or(false, |c0| c0.matches_input(&input) == Some(true)),
        2 => con0.is_some(),
        _ => msg0.map_or(false, |m| m.da_height <= da && m.matches_input(&input) == Some(true)),
    };
    kani::cover!(r.is_ok() && kind >= 3, "[C02.executor-kernels.verify.cover-message-accepted]");
    kani::assert(r.is_ok() == expect, "[C02.executor-kernels.verify.accepted-iff-entry-exists-matches-and-message-is-not-from-a-later-da-height]");
    let st = &db.inner.0;
    kani::assert(st.coins.removals.get() == 0 && st.msgs.removals.get() == 0 && st.coins.writes.get() == 0 && *st.coins.value.borrow() == coin0 && *st.msgs.value.borrow() == msg0, "[C02.executor-kernels.verify.checking-changes-nothing]");
}

// ---- C02: created coins have a non-zero amount and a fresh id, and are reported exactly once
//@ harness kind=proof tier=quick prop=C02 timeout=600 extra="--default-unwind 3"
#[cfg(kani)]
#[kani::proof]
fn c02_insert_coin() {
    let (u, n, c) = (UtxoId(kani::any()), Nonce(kani::any()), ContractId(kani::any()));
    let store = any_store(u, n, c);
    let (coin0, fails) = (*store.coins.value.borrow(), store.fails);
    let mut db = StorageTransaction { inner: S(store) };
    let mut data = ExecutionData { tx_count: kani::any(), events: Vec::new() };
    let (h, amount, asset, to) = (BlockHeight(kani::any()), kani::any::<u64>(), AssetId(kani::any()), Address(kani::any()));
    let idx = data.tx_count;
    let r = BlockExecutor::insert_coin(h, &mut data, u, &amount, &asset, &to, &mut db);
    let coin1 = *db.inner.0.coins.value.borrow();
    kani::cover!(r.is_err() && !fails, "[C02.executor-kernels.create.cover-existing-id-rejected]");
    if amount == 0 {
        kani::assert(r.is_ok() && coin1 == coin0 && data.events.len() == 0 && db.inner.0.coins.writes.get() == 0, "[C02.executor-kernels.create.zero-amount-output-creates-nothing]");
    } else {
        kani::assert(r.is_ok() == (!fails && coin0.is_none()), "[C02.executor-kernels.create.accepted-iff-identifier-is-fresh]");
        if r.is_ok() {
            let want = CompressedCoin(CompressedCoinV1 { owner: to, amount, asset_id: asset, tx_pointer: TxPointer(h, idx) });
            kani::assert(coin1 == Some(want) && data.events.len() == 1 && data.events[0] == ExecutorEvent::CoinCreated(want.uncompress(u)), "[C02.executor-kernels.create.stored-coin-and-event-are-exactly-the-output]");
        } else {
            kani::assert(data.events.len() == 0, "[C02.executor-kernels.create.rejected-output-reports-nothing]");
        }
    }
    kani::assert(db.inner.0.coins.touched_elsewhere.get() == 0 && db.inner.0.msgs.writes.get() == 0, "[C02.executor-kernels.create.touches-only-its-own-identifier]");
}

// Vacuity canaries
//@ harness kind=canary tier=quick prop=C02 expect=C02.executor-kernels.canary.nothing-spent timeout=600 extra="--default-unwind 3"
#[cfg(kani)]
#[kani::proof]
fn c02_canary() {
    let (u, n, c) = (UtxoId(kani::any()), Nonce(kani::any()), ContractId(kani::any()));
    let store = any_store(u, n, c);
    let coin0 = *store.coins.value.borrow();
    let input = any_input(0, u, n, c);
    let exec = BlockExecutor { options: ExecutionOptions { forbid_fake_coins: true } };
    let mut db = StorageTransaction { inner: S(store) };
    let mut data = ExecutionData { tx_count: 0, events: Vec::new() };
    let _ = exec.spend_input_utxos(core::slice::from_ref(&input), &mut db, false, &mut data);
    kani::assert(*db.inner.0.coins.value.borrow() == coin0, "[C02.executor-kernels.canary.nothing-spent]");
}
//@ harness kind=canary tier=quick prop=C04 expect=C04.executor-kernels.canary.reverted-spends-nothing timeout=600 extra="--default-unwind 3"
#[cfg(kani)]
#[kani::proof]
fn c04_canary() {
    let (u, n, c) = (UtxoId(kani::any()), Nonce(kani::any()), ContractId(kani::any()));
    let store = any_store(u, n, c);
    let msg0 = *store.msgs.value.borrow();
    let input = any_input(3, u, n, c);
    let exec = BlockExecutor { options: ExecutionOptions { forbid_fake_coins: true } };
    let mut db = StorageTransaction { inner: S(store) };
    let mut data = ExecutionData { tx_count: 0, events: Vec::new() };
    let _ = exec.spend_input_utxos(core::slice::from_ref(&input), &mut db, true, &mut data);
    kani::assert(*db.inner.0.msgs.value.borrow() == msg0, "[C04.executor-kernels.canary.reverted-spends-nothing]");
}
