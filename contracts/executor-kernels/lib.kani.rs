// Scratch crate generated on every run. Pasted from /repo's current working tree (header and body byte for byte), all from
// crates/services/executor/src/executor.rs:
//   struct ExecutionData, BlockExecutor::{check_mint_is_not_found, check_tx_is_not_duplicate, check_mint_amount,
//   check_gas_price, check_mint_has_expected_index, verify_mint_for_empty_contract, store_mint_tx,
//   update_execution_data, total_fee_paid}
// Stand-ins (trusted, listed in unit.toml): fuel-tx / fuel-vm types are reduced to the fields these functions read; the
// Chargeable transaction is a recording mock whose min_gas / max_fee_limit / refund_fee / metered_bytes_size return
// arbitrary values; the ProcessedTransactions table is its contract (contains_key / replace on one probed id).
#![allow(unused)]
use core::cell::Cell;
use std::sync::Arc;

pub type Word = u64;
#[derive(Clone, Copy, Debug, PartialEq, Eq)] pub struct TxId(pub u64);
#[derive(Clone, Copy, Debug, PartialEq, Eq)] pub struct MessageId(pub u64);
#[derive(Clone, Copy, Debug, PartialEq, Eq)] pub struct Bytes32(pub u64);
impl Bytes32 { pub fn zeroed() -> Self { Bytes32(0) } }
impl Default for Bytes32 { fn default() -> Self { Bytes32(0) } }
#[derive(Clone, Copy, Debug, PartialEq, Eq)] pub struct ContractId(pub u64);
impl ContractId { pub fn zeroed() -> Self { ContractId(0) } }
#[derive(Clone, Copy, Debug, PartialEq, Eq)] pub struct BlockHeight(pub u32);
impl BlockHeight { pub fn new(h: u32) -> Self { BlockHeight(h) } }
#[derive(Clone, Copy, Debug, PartialEq, Eq)] pub struct UtxoId(pub Bytes32, pub u16);
impl UtxoId { pub fn new(b: Bytes32, i: u16) -> Self { UtxoId(b, i) } }
#[derive(Clone, Copy, Debug, PartialEq, Eq)] pub struct TxPointer { pub height: BlockHeight, pub index: u16 }
impl TxPointer { pub fn new(height: BlockHeight, index: u16) -> Self { TxPointer { height, index } } pub fn tx_index(&self) -> u16 { self.index } }
pub mod input { pub mod contract { use super::super::*;
    #[derive(Clone, Copy, Debug, PartialEq, Eq)]
    pub struct Contract { pub utxo_id: UtxoId, pub balance_root: Bytes32, pub state_root: Bytes32, pub tx_pointer: TxPointer, pub contract_id: ContractId }
}}
pub mod output { pub mod contract { use super::super::*;
    #[derive(Clone, Copy, Debug, PartialEq, Eq)]
    pub struct Contract { pub input_index: u16, pub balance_root: Bytes32, pub state_root: Bytes32 }
}}
#[derive(Clone, Debug)]
pub struct Mint { pub tx_pointer: TxPointer, pub input_contract: input::contract::Contract, pub output_contract: output::contract::Contract, pub mint_amount: Word, pub gas_price: Word }
impl Mint {
    pub fn mint_amount(&self) -> &Word { &self.mint_amount }
    pub fn gas_price(&self) -> &Word { &self.gas_price }
    pub fn input_contract(&self) -> &input::contract::Contract { &self.input_contract }
    pub fn output_contract(&self) -> &output::contract::Contract { &self.output_contract }
    pub fn tx_pointer(&self) -> &TxPointer { &self.tx_pointer }
}
pub struct Checked<Tx>(pub Tx);
impl<Tx> Checked<Tx> { pub fn transaction(&self) -> &Tx { &self.0 } }
#[derive(Debug)] pub enum Transaction { Mint(Mint) }
impl From<Mint> for Transaction { fn from(m: Mint) -> Self { Transaction::Mint(m) } }
#[derive(Clone, Debug)] pub enum Receipt { ScriptResult { result: u64, gas_used: Word }, MessageOut { id: MessageId }, Other }
impl Receipt { pub fn message_id(&self) -> Option<MessageId> { if let Receipt::MessageOut { id } = self { Some(*id) } else { None } } }
#[derive(Clone, Copy, Debug, PartialEq, Eq)] pub struct ProgramState(pub u64);
#[derive(Debug, Clone)]
pub enum TransactionExecutionResult {
    Success { result: Option<ProgramState>, receipts: Arc<Vec<Receipt>>, total_gas: u64, total_fee: u64 },
    Failed { result: Option<ProgramState>, receipts: Arc<Vec<Receipt>>, total_gas: u64, total_fee: u64 },
}
#[derive(Debug, Clone)] pub struct TransactionExecutionStatus { pub id: TxId, pub result: TransactionExecutionResult }
#[derive(Debug)] pub struct ExecutorEvent;
#[derive(Debug, Default)] pub struct Changes;
#[derive(Debug)]
pub enum ExecutorError {
    MintIsNotLastTransaction, TransactionIdCollision(TxId), CoinbaseAmountMismatch, CoinbaseGasPriceMismatch,
    MintHasUnexpectedIndex, MintMismatch, FeeOverflow, GasOverflow(String, u64, u64), TxSizeOverflow, Storage, TooManyTransactions,
}
pub type ExecutorResult<T> = Result<T, ExecutorError>;
#[derive(Debug)] pub struct StorageError;
impl From<StorageError> for ExecutorError { fn from(_: StorageError) -> Self { ExecutorError::Storage } }

pub struct GasCosts; pub struct FeeParameters;
pub struct ConsensusParameters { pub gas_costs: GasCosts, pub fee_params: FeeParameters }
impl ConsensusParameters { pub fn gas_costs(&self) -> &GasCosts { &self.gas_costs } pub fn fee_params(&self) -> &FeeParameters { &self.fee_params } }
pub trait Chargeable {
    fn min_gas(&self, gas_costs: &GasCosts, fee: &FeeParameters) -> Word;
    fn max_fee_limit(&self) -> Word;
    fn refund_fee(&self, gas_costs: &GasCosts, fee: &FeeParameters, used_gas: Word, gas_price: Word) -> Option<Word>;
    fn metered_bytes_size(&self) -> usize;
}
pub struct MockTx { pub min_gas: Word, pub max_fee: Word, pub refund: Option<Word>, pub size: usize, pub refund_asked: Cell<Option<(Word, Word)>> }
impl Chargeable for MockTx {
    fn min_gas(&self, _g: &GasCosts, _f: &FeeParameters) -> Word { self.min_gas }
    fn max_fee_limit(&self) -> Word { self.max_fee }
    fn refund_fee(&self, _g: &GasCosts, _f: &FeeParameters, used_gas: Word, gas_price: Word) -> Option<Word> { self.refund_asked.set(Some((used_gas, gas_price))); self.refund }
    fn metered_bytes_size(&self) -> usize { self.size }
}

// ---- the ProcessedTransactions table of a storage transaction, as its contract on one probed id
pub struct ProcessedTransactions;
pub trait KeyValueInspect { type Column; fn store(&self) -> &Store; }
pub struct Column;
pub struct Store { pub probe: TxId, pub present: Cell<bool>, pub fails: bool, pub writes: Cell<u32> }
impl KeyValueInspect for Store { type Column = Column; fn store(&self) -> &Store { self } }
pub struct TxStorageTransaction<T> { pub inner: T }
pub struct TableRef<'a> { s: &'a Store }
impl<T: KeyValueInspect> TxStorageTransaction<T> {
    pub fn storage<Table>(&self) -> TableRef<'_> { TableRef { s: self.inner.store() } }
}
impl<'a> TableRef<'a> {
    pub fn contains_key(&self, id: &TxId) -> Result<bool, StorageError> {
        if self.s.fails { return Err(StorageError) }
        Ok(if *id == self.s.probe { self.s.present.get() } else { nondet_bool() })
    }
    // (the whole table API is offered so that a change of WHICH operation the code uses still compiles and is judged by its effect)
    pub fn insert(&self, id: &TxId, v: &()) -> Result<(), StorageError> { self.replace(id, v).map(|_| ()) }
    pub fn get(&self, id: &TxId) -> Result<Option<std::borrow::Cow<'a, ()>>, StorageError> { Ok(if self.contains_key(id)? { Some(std::borrow::Cow::Owned(())) } else { None }) }
    pub fn take(&self, id: &TxId) -> Result<Option<()>, StorageError> {
        if self.s.fails { return Err(StorageError) }
        self.s.writes.set(self.s.writes.get() + 1);
        if *id == self.s.probe { let was = self.s.present.replace(false); Ok(if was { Some(()) } else { None }) } else { Ok(None) }
    }
    pub fn remove(&self, id: &TxId) -> Result<(), StorageError> { self.take(id).map(|_| ()) }
    pub fn replace(&self, id: &TxId, _v: &()) -> Result<Option<()>, StorageError> {
        if self.s.fails { return Err(StorageError) }
        self.s.writes.set(self.s.writes.get() + 1);
        if *id == self.s.probe { let was = self.s.present.replace(true); Ok(if was { Some(()) } else { None }) } else { Ok(if nondet_bool() { Some(()) } else { None }) }
    }
}
#[cfg(kani)] fn nondet_bool() -> bool { kani::any() }
#[cfg(not(kani))] fn nondet_bool() -> bool { false }

//@ extract crates/services/executor/src/executor.rs struct ExecutionData
//@ end

pub struct BlockExecutor { pub consensus_params: ConsensusParameters }
impl BlockExecutor {
//@ extract crates/services/executor/src/executor.rs BlockExecutor::check_mint_is_not_found
//@ end
//@ extract crates/services/executor/src/executor.rs BlockExecutor::check_mint_amount
//@ end
//@ extract crates/services/executor/src/executor.rs BlockExecutor::check_gas_price
//@ end
//@ extract crates/services/executor/src/executor.rs BlockExecutor::check_mint_has_expected_index
//@ end
//@ extract crates/services/executor/src/executor.rs BlockExecutor::verify_mint_for_empty_contract
//@ end
//@ extract crates/services/executor/src/executor.rs BlockExecutor::update_execution_data
//@ end
//@ extract crates/services/executor/src/executor.rs BlockExecutor::total_fee_paid
//@ end
}
// the two functions that are generic over the storage: instantiated with the contract stand-in
pub struct BlockExecutorS;
impl BlockExecutorS {
//@ extract crates/services/executor/src/executor.rs BlockExecutor::check_tx_is_not_duplicate
//@ end
//@ extract crates/services/executor/src/executor.rs BlockExecutor::store_mint_tx
//@ end
}

// ---- execute_chargeable_transaction: the steps around the VM run, each a recording stand-in that fails as the harness chose
pub struct PartialBlockHeader { pub height: BlockHeight }
impl PartialBlockHeader { pub fn height(&self) -> &BlockHeight { &self.height } }
pub struct MemoryInstance;
pub struct ExecutionOptions { pub forbid_fake_coins: bool }
pub trait IntoChecked { type Metadata; }
pub trait CheckedMetadataTrait {}
pub trait ExecutableTransaction: IntoChecked + Chargeable + Into<Transaction> { fn inputs(&self) -> &[u8]; fn outputs(&self) -> &[u8]; fn tx_id(&self) -> TxId; }
pub trait Cacheable {}
pub struct ScriptTx { pub id: TxId }
pub struct Meta;
impl CheckedMetadataTrait for Meta {}
impl IntoChecked for ScriptTx { type Metadata = Meta; }
impl ExecutableTransaction for ScriptTx { fn inputs(&self) -> &[u8] { &[] } fn outputs(&self) -> &[u8] { &[] } fn tx_id(&self) -> TxId { self.id } }
impl Cacheable for ScriptTx {}
impl Chargeable for ScriptTx {
    fn min_gas(&self, _g: &GasCosts, _f: &FeeParameters) -> Word { 0 }
    fn max_fee_limit(&self) -> Word { 0 }
    fn refund_fee(&self, _g: &GasCosts, _f: &FeeParameters, _u: Word, _p: Word) -> Option<Word> { Some(0) }
    fn metered_bytes_size(&self) -> usize { 0 }
}
impl From<ScriptTx> for Transaction { fn from(t: ScriptTx) -> Self { Transaction::Mint(Mint { tx_pointer: TxPointer { height: BlockHeight(0), index: 0 }, input_contract: input::contract::Contract { utxo_id: UtxoId(Bytes32(0), 0), balance_root: Bytes32(0), state_root: Bytes32(0), tx_pointer: TxPointer { height: BlockHeight(0), index: 0 }, contract_id: ContractId(0) }, output_contract: output::contract::Contract { input_index: 0, balance_root: Bytes32(0), state_root: Bytes32(0) }, mint_amount: t.id.0, gas_price: 0 }) } }
pub trait CheckedId { fn id(&self) -> TxId; }
impl<Tx: ExecutableTransaction> CheckedId for Checked<Tx> { fn id(&self) -> TxId { self.0.tx_id() } }
/// the order in which the steps ran (1 = extra checks, 2 = VM, 3 = spend inputs, 4 = persist outputs, 5 = fee accounting) and which one fails
pub struct Steps { pub log: core::cell::RefCell<[u8; 6]>, pub n: Cell<usize>, pub fail_step: u8, pub reverted: bool }
impl Steps { fn run(&self, k: u8) -> ExecutorResult<()> { let n = self.n.get(); if n < 6 { self.log.borrow_mut()[n] = k; } self.n.set(n + 1); if self.fail_step == k { Err(ExecutorError::Storage) } else { Ok(()) } } }
pub struct BlockExecutorC { pub options: ExecutionOptions, pub steps: Steps }
impl BlockExecutorC {
//@ extract crates/services/executor/src/executor.rs BlockExecutor::execute_chargeable_transaction
//@ end
    fn extra_tx_checks<Tx, T>(&self, tx: Checked<Tx>, _h: &PartialBlockHeader, _s: &mut TxStorageTransaction<T>, _m: &mut MemoryInstance) -> ExecutorResult<Checked<Tx>> { self.steps.run(1)?; Ok(tx) }
    fn attempt_tx_execution_with_vm<Tx, T>(&self, tx: Checked<Tx>, _h: &PartialBlockHeader, _c: ContractId, _g: Word, _s: &mut TxStorageTransaction<T>, _m: &mut MemoryInstance) -> ExecutorResult<(bool, ProgramState, Tx, Arc<Vec<Receipt>>)> { self.steps.run(2)?; Ok((self.steps.reverted, ProgramState(0), tx.0, Arc::new(Vec::new()))) }
    fn spend_input_utxos<T>(&self, _i: &[u8], _s: &mut TxStorageTransaction<T>, _reverted: bool, _d: &mut ExecutionData) -> ExecutorResult<()> { self.steps.run(3) }
    fn persist_output_utxos<T>(&self, _h: BlockHeight, _d: &mut ExecutionData, _id: &TxId, _s: &mut TxStorageTransaction<T>, _i: &[u8], _o: &[u8]) -> ExecutorResult<()> { self.steps.run(4) }
    fn update_execution_data<Tx: Chargeable>(&self, _tx: &Tx, _d: &mut ExecutionData, _r: Arc<Vec<Receipt>>, _g: Word, _rev: bool, _s: ProgramState, _id: TxId) -> ExecutorResult<()> { self.steps.run(5) }
}

// ---- execute_transaction_and_commit: the per-transaction storage transaction (C04: a skipped transaction changes nothing)
pub enum ConflictPolicy { Fail, Overwrite }
/// the block-level storage transaction: counts what per-transaction transactions committed into it
pub struct BlockStorageTransaction<W> { pub inner: W, pub commits: Cell<u32>, pub committed_writes: Cell<u32>, pub commit_fails: bool }
pub struct TxSt<'a, W> { parent: &'a BlockStorageTransaction<W>, pub writes: u32 }
impl<W> BlockStorageTransaction<W> { pub fn write_transaction(&mut self) -> TxSt<'_, W> { TxSt { parent: self, writes: 0 } } }
impl<'a, W> TxSt<'a, W> {
    pub fn with_policy(self, _p: ConflictPolicy) -> Self { self }
    pub fn commit(self) -> Result<(), StorageError> { self.parent.commits.set(self.parent.commits.get() + 1); if self.parent.commit_fails { return Err(StorageError) } self.parent.committed_writes.set(self.parent.committed_writes.get() + self.writes); Ok(()) }
}
pub struct ChainId(pub u64);
pub struct ConsensusParams2 { pub chain: u64 }
impl ConsensusParams2 { pub fn chain_id(&self) -> ChainId { ChainId(self.chain) } }
pub struct MaybeCheckedTransaction { pub raw: u64 }
impl MaybeCheckedTransaction { pub fn id(&self, c: &ChainId) -> TxId { TxId(self.raw ^ c.0) } }
/// the block being built: a transaction list with Vec's push / len
pub struct TxList { pub n: usize, pub last: Option<u64> }
impl TxList { pub fn push(&mut self, t: Transaction) { self.n += 1; self.last = Some(match t { Transaction::Mint(m) => m.mint_amount }); } }
pub struct PartialFuelBlock { pub header: PartialBlockHeader, pub transactions: TxList }
pub struct BlockExecutorT { pub consensus_params: ConsensusParams2, pub exec_fails: bool, pub exec_calls: Cell<u32> }
impl BlockExecutorT {
//@ extract crates/services/executor/src/executor.rs BlockExecutor::execute_transaction_and_commit
//@ end
    // contract of execute_transaction: writes into the PER-TRANSACTION storage transaction it is handed (possibly before failing)
    fn execute_transaction<W>(&self, tx: MaybeCheckedTransaction, tx_id: &TxId, _h: &PartialBlockHeader, _c: ContractId, _g: Word, _d: &mut ExecutionData, st: &mut TxSt<'_, W>, _m: &mut MemoryInstance) -> ExecutorResult<Transaction> {
        self.exec_calls.set(self.exec_calls.get() + 1);
        st.writes += 1;
        if self.exec_fails { return Err(ExecutorError::Storage) }
        Ok(Transaction::Mint(Mint { tx_pointer: TxPointer { height: BlockHeight(0), index: 0 }, input_contract: input::contract::Contract { utxo_id: UtxoId(Bytes32(0), 0), balance_root: Bytes32(0), state_root: Bytes32(0), tx_pointer: TxPointer { height: BlockHeight(0), index: 0 }, contract_id: ContractId(0) }, output_contract: output::contract::Contract { input_index: 0, balance_root: Bytes32(0), state_root: Bytes32(0) }, mint_amount: tx_id.0, gas_price: 0 }))
    }
}

// =====================================================================================================================
#[cfg(kani)]
fn any_data() -> ExecutionData {
    ExecutionData { coinbase: kani::any(), used_gas: kani::any(), used_size: kani::any(), tx_count: kani::any(), found_mint: kani::any(),
        message_ids: Vec::new(), tx_status: Vec::new(), events: Vec::new(), changes: Default::default(), skipped_transactions: Vec::new(),
        event_inbox_root: Default::default() }
}
#[cfg(kani)]
fn any_mint() -> Mint {
    Mint {
        tx_pointer: TxPointer { height: BlockHeight(kani::any()), index: kani::any() },
        input_contract: input::contract::Contract { utxo_id: UtxoId(Bytes32(kani::any()), kani::any()), balance_root: Bytes32(kani::any()), state_root: Bytes32(kani::any()),
            tx_pointer: TxPointer { height: BlockHeight(kani::any()), index: kani::any() }, contract_id: ContractId(kani::any()) },
        output_contract: output::contract::Contract { input_index: kani::any(), balance_root: Bytes32(kani::any()), state_root: Bytes32(kani::any()) },
        mint_amount: kani::any(), gas_price: kani::any(),
    }
}

// ---- C03: what validation demands of the mint
//@ harness kind=proof tier=quick prop=C03 timeout=600
#[cfg(kani)]
#[kani::proof]
fn c03_mint_checks() {
    let mint = any_mint();
    let data = any_data();
    let expected_amount: u64 = kani::any();
    let expected_price: u64 = kani::any();
    let r1 = BlockExecutor::check_mint_amount(&mint, expected_amount).is_ok();
    kani::assert(r1 == (mint.mint_amount == expected_amount), "[C03.executor-kernels.mint.amount-must-equal-collected-fees]");
    let r2 = BlockExecutor::check_gas_price(&mint, expected_price).is_ok();
    kani::assert(r2 == (mint.gas_price == expected_price), "[C03.executor-kernels.mint.gas-price-must-equal-block-gas-price]");
    let checked = Checked(mint.clone());
    let r3 = BlockExecutor::check_mint_has_expected_index(&checked, &data).is_ok();
    kani::assert(r3 == (mint.tx_pointer.index == data.tx_count), "[C03.executor-kernels.mint.index-must-equal-number-of-preceding-transactions]");
    let r4 = BlockExecutor::check_mint_is_not_found(&data).is_ok();
    kani::assert(r4 == !data.found_mint, "[C03.executor-kernels.mint.nothing-may-follow-the-mint]");
    let r5 = BlockExecutor::verify_mint_for_empty_contract(&mint).is_ok();
    let ic = &mint.input_contract; let oc = &mint.output_contract;
    let zeroed = ic.utxo_id == UtxoId(Bytes32(0), 0) && ic.balance_root == Bytes32(0) && ic.state_root == Bytes32(0)
        && ic.tx_pointer == (TxPointer { height: BlockHeight(0), index: 0 }) && ic.contract_id == ContractId(0)
        && oc.input_index == 0 && oc.balance_root == Bytes32(0) && oc.state_root == Bytes32(0);
    kani::cover!(r5, "[C03.executor-kernels.mint.cover-empty-recipient-accepted]");
    kani::assert(r5 == (mint.mint_amount == 0 && zeroed), "[C03.executor-kernels.mint.without-recipient-amount-is-zero-and-contract-fields-are-zeroed]");
}

#[cfg(kani)]
fn any_receipts(n: u8) -> (Vec<Receipt>, Word, u64) {
    // n <= 2 receipts; returns (receipts, gas_used of the LAST ScriptResult or 0, number of message-out receipts)
    let mk = |k: u8, g: Word| -> Receipt { match k { 0 => Receipt::ScriptResult { result: 0, gas_used: g }, 1 => Receipt::MessageOut { id: MessageId(g) }, _ => Receipt::Other } };
    let (k0, g0, k1, g1): (u8, Word, u8, Word) = (kani::any(), kani::any(), kani::any(), kani::any());
    kani::assume(k0 <= 2 && k1 <= 2);
    let mut v = Vec::new();
    let mut script_gas = 0;
    let mut msgs = 0;
    if n >= 1 { v.push(mk(k0, g0)); if k0 == 0 { script_gas = g0; } if k0 == 1 { msgs += 1; } }
    if n >= 2 { v.push(mk(k1, g1)); if k1 == 0 { script_gas = g1; } if k1 == 1 { msgs += 1; } }
    (v, script_gas, msgs)
}

// ---- C03: the fee that enters the coinbase and the gas / size accounting of one executed transaction
#[cfg(kani)]
fn fees_case(n_receipts: u8, reverted: bool) {
    let exec = BlockExecutor { consensus_params: ConsensusParameters { gas_costs: GasCosts, fee_params: FeeParameters } };
    let tx = MockTx { min_gas: kani::any(), max_fee: kani::any(), refund: kani::any(), size: kani::any(), refund_asked: Cell::new(None) };
    let mut data = any_data();
    let (c0, g0, s0, n0, f0) = (data.coinbase, data.used_gas, data.used_size, data.tx_count, data.found_mint);
    let (receipts, script_gas, msgs) = any_receipts(n_receipts);
    let gas_price: Word = kani::any();
    let id = TxId(kani::any());
    let r = exec.update_execution_data(&tx, &mut data, Arc::new(receipts), gas_price, reverted, ProgramState(1), id);
    // the statement's arithmetic, in mathematical integers
    let fee: Option<u64> = match tx.refund { Some(rf) if rf <= tx.max_fee => Some(tx.max_fee - rf), _ => None };
    let gas: Option<u64> = tx.min_gas.checked_add(script_gas);
    let size: u32 = if tx.size > u32::MAX as usize { u32::MAX } else { tx.size as u32 };
    let fits = fee.is_some() && gas.is_some()
        && (c0 as u128 + fee.unwrap_or(0) as u128) <= u64::MAX as u128
        && (g0 as u128 + gas.unwrap_or(0) as u128) <= u64::MAX as u128
        && (s0 as u64 + size as u64) <= u32::MAX as u64;
    if n_receipts > 0 { kani::cover!(r.is_ok() && script_gas > 0 && fee.unwrap_or(0) > 0, "[C03.executor-kernels.fees.cover-script-with-fee]"); }
    kani::cover!(r.is_err() && fee.is_some() && gas.is_some(), "[C03.executor-kernels.fees.cover-block-total-overflow]");
    kani::assert(r.is_ok() == fits, "[C03.executor-kernels.fees.fails-exactly-when-a-total-would-overflow]");
    kani::assert(tx.refund_asked.get() == Some((script_gas, gas_price)), "[C03.executor-kernels.fees.refund-computed-from-last-script-result-gas-and-block-gas-price]");
    if r.is_ok() {
        kani::assert(data.coinbase == c0 + fee.unwrap(), "[C03.executor-kernels.fees.coinbase-grows-by-exactly-the-fee-charged]");
        kani::assert(data.used_gas == g0 + gas.unwrap(), "[C03.executor-kernels.fees.used-gas-grows-by-min-gas-plus-script-gas]");
        kani::assert(data.used_size == s0 + size, "[C03.executor-kernels.fees.used-size-grows-by-the-metered-size]");
        kani::assert(data.tx_status.len() == 1, "[C03.executor-kernels.fees.exactly-one-status-recorded]");
        match &data.tx_status[0].result {
            TransactionExecutionResult::Success { total_gas, total_fee, .. } => kani::assert(!reverted && *total_gas == gas.unwrap() && *total_fee == fee.unwrap() && data.tx_status[0].id == id, "[C03.executor-kernels.fees.recorded-status-carries-the-same-fee-and-gas]"),
            TransactionExecutionResult::Failed { total_gas, total_fee, .. } => kani::assert(reverted && *total_gas == gas.unwrap() && *total_fee == fee.unwrap() && data.tx_status[0].id == id, "[C03.executor-kernels.fees.recorded-status-carries-the-same-fee-and-gas]"),
        }
        kani::assert(data.message_ids.len() as u64 == (if reverted { 0 } else { msgs }), "[C03.executor-kernels.fees.message-ids-recorded-only-for-successful-transactions]");
    } else {
        kani::assert(data.tx_status.len() == 0, "[C03.executor-kernels.fees.no-status-recorded-on-failure]");
    }
    kani::assert(data.tx_count == n0 && data.found_mint == f0, "[C03.executor-kernels.fees.transaction-count-and-mint-flag-untouched]");
}

//@ harness kind=bounded tier=quick prop=C03 bound="at most 2 receipts per transaction" timeout=600 extra="--default-unwind 4"
#[cfg(kani)]
#[kani::proof]
fn c03_fees_no_receipts() { fees_case(0, kani::any()); }
//@ harness kind=bounded tier=quick prop=C03 bound="at most 2 receipts per transaction" timeout=600 extra="--default-unwind 4"
#[cfg(kani)]
#[kani::proof]
fn c03_fees_one_receipt() { fees_case(1, kani::any()); }
//@ harness kind=bounded tier=quick prop=C03 bound="at most 2 receipts per transaction" timeout=600 extra="--default-unwind 4"
#[cfg(kani)]
#[kani::proof]
fn c03_fees_two_receipts_ok() { fees_case(2, false); }
//@ harness kind=bounded tier=quick prop=C03 bound="at most 2 receipts per transaction" timeout=600 extra="--default-unwind 4"
#[cfg(kani)]
#[kani::proof]
fn c03_fees_two_receipts_reverted() { fees_case(2, true); }

// ---- C06: the duplicate-id checks against the processed-transactions table
//@ harness kind=proof tier=quick prop=C06 timeout=600
#[cfg(kani)]
#[kani::proof]
fn c06_duplicate_checks() {
    let id = TxId(kani::any());
    let present: bool = kani::any();
    let fails: bool = kani::any();
    let st = TxStorageTransaction { inner: Store { probe: id, present: Cell::new(present), fails, writes: Cell::new(0) } };
    let r = BlockExecutorS::check_tx_is_not_duplicate(&id, &st);
    kani::cover!(r.is_err() && !fails, "[C06.executor-kernels.dup.cover-duplicate-rejected]");
    kani::assert(r.is_ok() == (!fails && !present), "[C06.executor-kernels.dup.accepted-iff-id-was-never-processed]");
    kani::assert(st.inner.writes.get() == 0 && st.inner.present.get() == present, "[C06.executor-kernels.dup.check-does-not-write]");
    // the mint is recorded under its id, and a mint whose id was already processed is rejected
    let mut st2 = TxStorageTransaction { inner: Store { probe: id, present: Cell::new(present), fails, writes: Cell::new(0) } };
    let mut data = any_data();
    let r2 = BlockExecutorS::store_mint_tx(any_mint(), &mut data, id, &mut st2);
    kani::cover!(r2.is_ok(), "[C06.executor-kernels.dup.cover-mint-stored]");
    kani::assert(r2.is_ok() == (!fails && !present), "[C06.executor-kernels.dup.mint-accepted-iff-id-was-never-processed]");
    kani::assert(fails || st2.inner.present.get(), "[C06.executor-kernels.dup.mint-id-is-recorded-as-processed]");
}

// ---- C06: an executed transaction's id is recorded as processed whether or not its script reverted
//@ harness kind=proof tier=quick prop=C06 timeout=600 extra="--default-unwind 8"
#[cfg(kani)]
#[kani::proof]
fn c06_executed_transaction_is_recorded() {
    let id = TxId(kani::any());
    let present: bool = kani::any();
    let mut st = TxStorageTransaction { inner: Store { probe: id, present: Cell::new(present), fails: kani::any(), writes: Cell::new(0) } };
    let fails = st.inner.fails;
    let fail_step: u8 = kani::any();
    kani::assume(fail_step <= 5);
    let exec = BlockExecutorC { options: ExecutionOptions { forbid_fake_coins: kani::any() }, steps: Steps { log: core::cell::RefCell::new([0; 6]), n: Cell::new(0), fail_step, reverted: kani::any() } };
    let mut data = any_data();
    let r = exec.execute_chargeable_transaction(Checked(ScriptTx { id }), &PartialBlockHeader { height: BlockHeight(kani::any()) }, ContractId(0), kani::any(), &mut data, &mut st, &mut MemoryInstance);
    let ok = r.is_ok();
    core::mem::forget(r);
    let checks = exec.options.forbid_fake_coins;
    let step_fails = fail_step != 0 && (fail_step != 1 || checks);
    kani::cover!(ok && exec.steps.reverted, "[C06.executor-kernels.exec.cover-reverted-transaction-included]");
    kani::assert(ok == (!step_fails && !fails), "[C06.executor-kernels.exec.succeeds-iff-every-step-and-the-id-record-succeed]");
    kani::assert(!ok || st.inner.present.get(), "[C06.executor-kernels.exec.included-transaction-id-is-recorded-as-processed-reverted-or-not]");
    // the id is recorded only after the VM run and the input/output bookkeeping succeeded, and nothing runs after a failed step
    let log = *exec.steps.log.borrow(); let n = exec.steps.n.get();
    let first = if checks { 1 } else { 2 };
    let mut ordered = n >= 1 && log[0] == first;
    let mut k = 1; while k < 6 { if k < n && !(log[k] == log[k - 1] + 1 && log[k - 1] != fail_step) { ordered = false; } k += 1; }
    kani::assert(ordered, "[C06.executor-kernels.exec.steps-run-in-order-and-stop-at-the-first-failure]");
    kani::assert(st.inner.writes.get() == (if !fails && (fail_step == 0 || fail_step == 5 || (fail_step == 1 && !checks)) { 1 } else { 0 }), "[C06.executor-kernels.exec.id-recorded-exactly-once-after-inputs-and-outputs-are-settled]");
}

// ---- C04: a transaction whose execution fails (the producer skips it) leaves nothing behind: its storage transaction is
// never committed into the block's, it is not added to the block and the transaction count does not move
//@ harness kind=proof tier=quick prop=C04 timeout=600 extra="--default-unwind 3"
#[cfg(kani)]
#[kani::proof]
fn c04_skipped_transaction_changes_nothing() {
    let exec = BlockExecutorT { consensus_params: ConsensusParams2 { chain: kani::any() }, exec_fails: kani::any(), exec_calls: Cell::new(0) };
    let mut st = BlockStorageTransaction { inner: Store { probe: TxId(0), present: Cell::new(false), fails: false, writes: Cell::new(0) }, commits: Cell::new(0), committed_writes: Cell::new(0), commit_fails: kani::any() };
    let commit_fails = st.commit_fails;
    let mut data = any_data();
    // the caller (process_l2_txs) takes at most max_tx_count() - tx_count transactions, so the count cannot be at u16::MAX here
    kani::assume(data.tx_count < u16::MAX);
    let n0 = data.tx_count;
    let mut block = PartialFuelBlock { header: PartialBlockHeader { height: BlockHeight(kani::any()) }, transactions: TxList { n: 0, last: None } };
    let raw: u64 = kani::any();
    let r = exec.execute_transaction_and_commit(&mut block, &mut st, &mut data, MaybeCheckedTransaction { raw }, kani::any(), ContractId(0), &mut MemoryInstance);
    let ok = r.is_ok();
    core::mem::forget(r);
    kani::cover!(!ok && exec.exec_fails, "[C04.executor-kernels.skip.cover-skipped-transaction]");
    kani::assert(ok == (!exec.exec_fails && !commit_fails), "[C04.executor-kernels.skip.included-iff-execution-and-commit-succeed]");
    kani::assert(exec.exec_calls.get() == 1, "[C04.executor-kernels.skip.executed-exactly-once]");
    if exec.exec_fails {
        kani::assert(st.commits.get() == 0 && st.committed_writes.get() == 0, "[C04.executor-kernels.skip.failed-transactions-storage-changes-are-never-committed]");
    }
    if ok {
        kani::assert(st.commits.get() == 1 && st.committed_writes.get() == 1 && block.transactions.n == 1 && block.transactions.last == Some(raw ^ exec.consensus_params.chain) && data.tx_count == n0 + 1, "[C04.executor-kernels.skip.included-transaction-is-committed-once-added-to-the-block-and-counted]");
    } else {
        kani::assert(st.committed_writes.get() == 0 && block.transactions.n == 0 && data.tx_count == n0, "[C04.executor-kernels.skip.skipped-transaction-changes-nothing]");
    }
}

// Vacuity canaries
//@ harness kind=canary tier=quick prop=C03 expect=C03.executor-kernels.canary.fee-never-charged timeout=600 extra="--default-unwind 4"
#[cfg(kani)]
#[kani::proof]
fn c03_canary() {
    let exec = BlockExecutor { consensus_params: ConsensusParameters { gas_costs: GasCosts, fee_params: FeeParameters } };
    let tx = MockTx { min_gas: kani::any(), max_fee: kani::any(), refund: kani::any(), size: kani::any(), refund_asked: Cell::new(None) };
    let mut data = any_data();
    let c0 = data.coinbase;
    let r = exec.update_execution_data(&tx, &mut data, Arc::new(Vec::new()), kani::any(), false, ProgramState(1), TxId(0));
    kani::assert(r.is_err() || data.coinbase == c0, "[C03.executor-kernels.canary.fee-never-charged]");
}
//@ harness kind=canary tier=quick prop=C06 expect=C06.executor-kernels.canary.never-rejects timeout=600
#[cfg(kani)]
#[kani::proof]
fn c06_canary() {
    let id = TxId(kani::any());
    let st = TxStorageTransaction { inner: Store { probe: id, present: Cell::new(kani::any()), fails: false, writes: Cell::new(0) } };
    kani::assert(BlockExecutorS::check_tx_is_not_duplicate(&id, &st).is_ok(), "[C06.executor-kernels.canary.never-rejects]");
}
