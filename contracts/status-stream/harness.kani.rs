// Contract harness for <Sender<P, Tx> as SendStatus>::try_send together with the TxUpdateStream state machine it
// drives (add_msg, try_next, add_failure, close_recv, is_closed) - real code, all 7 status variants + FailedStatus,
// all channel answers, every state the sender can rest in between publications.
use super::*;
use crate::update_sender::{SendError, SendStatus, Sender};
use std::sync::Arc;
use fuel_core_types::services::transaction_status::{TransactionStatus, statuses};
use fuel_core_types::tai64::Tai64;
//@ include pred.rs

struct MockTx { resp: u8, handed: Option<TxStatusMessage>, calls: u32 }
impl SendStatus for MockTx {
    fn try_send(&mut self, msg: TxStatusMessage) -> Result<(), SendError> {
        self.calls += 1;
        self.handed = Some(msg);
        match self.resp { 0 => Ok(()), 1 => Err(SendError::Full), _ => Err(SendError::Closed) }
    }
    fn is_closed(&self) -> bool { self.resp == 2 }
}

/// One message of every kind; `t` makes the payload distinguishable. Returns the message and the address of its payload.
fn mk_msg(kind: u8, t: u64) -> (TxStatusMessage, usize) {
    let none: Option<fuel_core_types::fuel_vm::ProgramState> = None;
    match kind {
        0 => { let a = Arc::new(statuses::Submitted { timestamp: Tai64(t) }); let p = Arc::as_ptr(&a) as usize; (TxStatusMessage::Status(TransactionStatus::Submitted(a)), p) }
        1 => { let a = Arc::new(statuses::Success { block_height: 0u32.into(), block_timestamp: Tai64(t), program_state: none, receipts: Arc::new(Vec::new()), total_gas: t, total_fee: 0 }); let p = Arc::as_ptr(&a) as usize; (TxStatusMessage::Status(TransactionStatus::Success(a)), p) }
        2 => { let a = Arc::new(statuses::PreConfirmationSuccess { tx_pointer: Default::default(), total_gas: t, total_fee: 0, receipts: None, resolved_outputs: None }); let p = Arc::as_ptr(&a) as usize; (TxStatusMessage::Status(TransactionStatus::PreConfirmationSuccess(a)), p) }
        3 => { let a = Arc::new(statuses::SqueezedOut::new(String::new(), Default::default())); let p = Arc::as_ptr(&a) as usize; (TxStatusMessage::Status(TransactionStatus::SqueezedOut(a)), p) }
        4 => { let a = Arc::new(statuses::PreConfirmationSqueezedOut { reason: String::new() }); let p = Arc::as_ptr(&a) as usize; (TxStatusMessage::Status(TransactionStatus::PreConfirmationSqueezedOut(a)), p) }
        5 => { let a = Arc::new(statuses::Failure { block_height: 0u32.into(), block_timestamp: Tai64(t), reason: String::new(), program_state: none, receipts: Arc::new(Vec::new()), total_gas: t, total_fee: 0 }); let p = Arc::as_ptr(&a) as usize; (TxStatusMessage::Status(TransactionStatus::Failure(a)), p) }
        6 => { let a = Arc::new(statuses::PreConfirmationFailure { tx_pointer: Default::default(), total_gas: t, total_fee: 0, receipts: None, resolved_outputs: None, reason: String::new() }); let p = Arc::as_ptr(&a) as usize; (TxStatusMessage::Status(TransactionStatus::PreConfirmationFailure(a)), p) }
        _ => (TxStatusMessage::FailedStatus, 0),
    }
}

/// (kind, payload address) of a message
fn id_of(m: &TxStatusMessage) -> (u8, usize) {
    match m {
        TxStatusMessage::Status(TransactionStatus::Submitted(a)) => (0, Arc::as_ptr(a) as usize),
        TxStatusMessage::Status(TransactionStatus::Success(a)) => (1, Arc::as_ptr(a) as usize),
        TxStatusMessage::Status(TransactionStatus::PreConfirmationSuccess(a)) => (2, Arc::as_ptr(a) as usize),
        TxStatusMessage::Status(TransactionStatus::SqueezedOut(a)) => (3, Arc::as_ptr(a) as usize),
        TxStatusMessage::Status(TransactionStatus::PreConfirmationSqueezedOut(a)) => (4, Arc::as_ptr(a) as usize),
        TxStatusMessage::Status(TransactionStatus::Failure(a)) => (5, Arc::as_ptr(a) as usize),
        TxStatusMessage::Status(TransactionStatus::PreConfirmationFailure(a)) => (6, Arc::as_ptr(a) as usize),
        TxStatusMessage::FailedStatus => (7, 0),
    }
}

fn abs_state(s: &State) -> u8 {
    match s { State::Empty => 0, State::Failed => 1, State::Closed => 2, _ => 3 }
}

fn try_send_case(kind: u8) {
    let st: u8 = kani::any();
    kani::assume(st <= 2);
    let resp: u8 = kani::any();
    kani::assume(resp <= 2);
    let t: u64 = kani::any();
    let (msg, payload) = mk_msg(kind, t);
    let m_final = msg.is_final();
    // the statement's vocabulary: success, failure and both squeeze-outs (and the failure marker) are final
    kani::assert(m_final == (kind == 1 || kind == 3 || kind == 4 || kind == 5 || kind == 7), "[C22.status-stream.try_send.final-statuses-are-success-failure-squeezed-out]");
    let state = match st { 0 => State::Empty, 1 => State::Failed, _ => State::Closed };
    let mut sender: Sender<(), MockTx> = Sender {
        _permit: (),
        stream: TxUpdateStream { state },
        tx: MockTx { resp, handed: None, calls: 0 },
        created: unsafe { core::mem::zeroed() },
    };
    let r = sender.try_send(msg);
    let after = abs_state(&sender.stream.state);
    let hk = handed_kind(st);
    kani::cover!(st == 0 && resp == 1, "[C22.status-stream.try_send.cover-overflow]");
    kani::cover!(st == 1 && resp == 0, "[C22.status-stream.try_send.cover-failed-status-flushed]");
    kani::assert(sender.tx.calls <= 1 && (sender.tx.calls == 1) == (hk != 0), "[C22.status-stream.try_send.hands-over-at-most-one-message-and-none-once-closed]");
    match &sender.tx.handed {
        None => kani::assert(hk == 0, "[C22.status-stream.try_send.handed-message-kind]"),
        Some(h) => {
            let (k2, p2) = id_of(h);
            kani::assert((hk == 1 && k2 == kind && p2 == payload) || (hk == 2 && k2 == 7), "[C22.status-stream.try_send.handed-message-kind]");
        }
    }
    // the sender rests in {open, overflowed, closed} again, exactly as the abstract transition says
    kani::assert(after == next_state(st, m_final, resp), "[C22.status-stream.try_send.rest-state-follows-abstract-transition]");
    kani::assert(r.is_err() == (after == 2), "[C22.status-stream.try_send.reports-closed-iff-stream-closed]");
    core::mem::forget(sender);
}

//@ harness kind=proof tier=quick timeout=1200
#[kani::proof]
fn c22_try_send_submitted() { try_send_case(0); }
//@ harness kind=proof tier=quick timeout=1200
#[kani::proof]
fn c22_try_send_success() { try_send_case(1); }
//@ harness kind=proof tier=quick timeout=1200
#[kani::proof]
fn c22_try_send_preconf_success() { try_send_case(2); }
//@ harness kind=proof tier=quick timeout=1200
#[kani::proof]
fn c22_try_send_squeezed_out() { try_send_case(3); }
//@ harness kind=proof tier=quick timeout=1200
#[kani::proof]
fn c22_try_send_preconf_squeezed_out() { try_send_case(4); }
//@ harness kind=proof tier=quick timeout=1200
#[kani::proof]
fn c22_try_send_failure() { try_send_case(5); }
//@ harness kind=proof tier=quick timeout=1200
#[kani::proof]
fn c22_try_send_preconf_failure() { try_send_case(6); }
//@ harness kind=proof tier=quick timeout=1200
#[kani::proof]
fn c22_try_send_failed_status() { try_send_case(7); }

// Vacuity canary: "the sender never closes" must FAIL.
//@ harness kind=canary tier=quick expect=C22.status-stream.canary.never-closes timeout=1200
#[kani::proof]
fn c22_canary() {
    let (msg, _p) = mk_msg(1, kani::any());
    let mut sender: Sender<(), MockTx> = Sender { _permit: (), stream: TxUpdateStream { state: State::Empty },
        tx: MockTx { resp: 0, handed: None, calls: 0 }, created: unsafe { core::mem::zeroed() } };
    let r = sender.try_send(msg);
    kani::assert(r.is_ok(), "[C22.status-stream.canary.never-closes]");
    core::mem::forget(sender);
}
