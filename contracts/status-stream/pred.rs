// Shared predicate text. Abstract view of one subscriber's sender between publications:
//   st:   0 = open (nothing pending), 1 = overflowed (a FailedStatus is owed), 2 = closed
//   resp: what the subscriber channel answers: 0 = accepted, 1 = full, 2 = closed
//   handed: what the sender hands to the channel in this call: 0 = nothing, 1 = exactly the published message, 2 = FailedStatus

pub fn handed_kind(st: u8) -> u8 {
    if st == 0 { 1 } else if st == 1 { 2 } else { 0 }
}

pub fn next_state(st: u8, m_final: bool, resp: u8) -> u8 {
    if st == 0 {
        if m_final { 2 } else if resp == 0 { 0 } else if resp == 1 { 1 } else { 2 }
    } else {
        2
    }
}
