// Scratch crate generated on every run. Pasted from /repo's current working tree (header and body byte for byte):
//   fuel-core-types  services/transaction_status.rs : enum TransactionStatus, TransactionStatus::is_final
//   tx_status_manager tx_status_stream.rs           : enum TxStatusMessage, impl TxStatusMessage, enum State,
//                                                      struct TxUpdateStream, impl TxUpdateStream
//   tx_status_manager update_sender.rs              : enum SendError, trait SendStatus, struct Sender,
//                                                      impl<P, Tx> SendStatus for Sender<P, Tx>
// Stand-ins (trusted, listed in unit.toml): the seven payload structs `statuses::*` are reduced to one u64 tag each
// (the state machine never looks inside a payload; Arc identity + tag identify the delivered message); tokio's
// Instant / OwnedSemaphorePermit / mpsc::Sender only name default type parameters of `Sender` and are unit structs.
#![allow(unused)]
use std::sync::Arc;

pub mod statuses {
    #[derive(Clone, Debug, PartialEq, Eq)] pub struct Submitted(pub u64);
    #[derive(Clone, Debug, PartialEq, Eq)] pub struct Success(pub u64);
    #[derive(Clone, Debug, PartialEq, Eq)] pub struct PreConfirmationSuccess(pub u64);
    #[derive(Clone, Debug, PartialEq, Eq)] pub struct SqueezedOut(pub u64);
    #[derive(Clone, Debug, PartialEq, Eq)] pub struct PreConfirmationSqueezedOut(pub u64);
    #[derive(Clone, Debug, PartialEq, Eq)] pub struct Failure(pub u64);
    #[derive(Clone, Debug, PartialEq, Eq)] pub struct PreConfirmationFailure(pub u64);
}
pub struct Instant;
pub struct OwnedSemaphorePermit;
pub mod mpsc { pub struct Sender<T>(pub core::marker::PhantomData<T>); }

#[derive(Clone, Debug, PartialEq, Eq)]
//@ extract crates/types/src/services/transaction_status.rs enum TransactionStatus
//@ end

impl TransactionStatus {
//@ extract crates/types/src/services/transaction_status.rs TransactionStatus::is_final
//@ end
}

pub mod tx_status_stream {
    use super::*;
    #[derive(Debug, Clone, PartialEq, Eq)]
//@ extract crates/services/tx_status_manager/src/tx_status_stream.rs enum TxStatusMessage
//@ end

//@ extract crates/services/tx_status_manager/src/tx_status_stream.rs impl TxStatusMessage
//@ end

    #[derive(Debug, Clone, PartialEq, Eq)]
//@ extract crates/services/tx_status_manager/src/tx_status_stream.rs enum State
//@ end

    #[derive(Debug)]
//@ extract crates/services/tx_status_manager/src/tx_status_stream.rs struct TxUpdateStream
//@ end

//@ extract crates/services/tx_status_manager/src/tx_status_stream.rs impl TxUpdateStream
//@ end

    // harness access to the private state (the real module keeps it private)
    #[cfg(kani)]
    pub fn with_state_for_verif(state: State) -> TxUpdateStream { TxUpdateStream { state } }
    #[cfg(kani)]
    pub fn state_for_verif(s: &TxUpdateStream) -> &State { &s.state }
}
use tx_status_stream::{State, TxStatusMessage, TxUpdateStream};

#[derive(Debug)]
//@ extract crates/services/tx_status_manager/src/update_sender.rs enum SendError
//@ end

//@ extract crates/services/tx_status_manager/src/update_sender.rs trait SendStatus
//@ end

//@ extract crates/services/tx_status_manager/src/update_sender.rs struct Sender
//@ end

//@ extract crates/services/tx_status_manager/src/update_sender.rs impl SendStatus for Sender#1
//@ end

// =====================================================================================================================
//@ include pred.rs

#[cfg(kani)]
struct MockTx { resp: u8, handed: Option<TxStatusMessage>, calls: u32 }
#[cfg(kani)]
impl SendStatus for MockTx {
    fn try_send(&mut self, msg: TxStatusMessage) -> Result<(), SendError> {
        self.calls += 1;
        self.handed = Some(msg);
        match self.resp { 0 => Ok(()), 1 => Err(SendError::Full), _ => Err(SendError::Closed) }
    }
    fn is_closed(&self) -> bool { self.resp == 2 }
}

/// One message of every kind; `t` makes the payload distinguishable. Returns the message and the address of its payload.
#[cfg(kani)]
fn mk_msg(kind: u8, t: u64) -> (TxStatusMessage, usize) {
    match kind {
        0 => { let a = Arc::new(statuses::Submitted(t)); let p = Arc::as_ptr(&a) as usize; (TxStatusMessage::Status(TransactionStatus::Submitted(a)), p) }
        1 => { let a = Arc::new(statuses::Success(t)); let p = Arc::as_ptr(&a) as usize; (TxStatusMessage::Status(TransactionStatus::Success(a)), p) }
        2 => { let a = Arc::new(statuses::PreConfirmationSuccess(t)); let p = Arc::as_ptr(&a) as usize; (TxStatusMessage::Status(TransactionStatus::PreConfirmationSuccess(a)), p) }
        3 => { let a = Arc::new(statuses::SqueezedOut(t)); let p = Arc::as_ptr(&a) as usize; (TxStatusMessage::Status(TransactionStatus::SqueezedOut(a)), p) }
        4 => { let a = Arc::new(statuses::PreConfirmationSqueezedOut(t)); let p = Arc::as_ptr(&a) as usize; (TxStatusMessage::Status(TransactionStatus::PreConfirmationSqueezedOut(a)), p) }
        5 => { let a = Arc::new(statuses::Failure(t)); let p = Arc::as_ptr(&a) as usize; (TxStatusMessage::Status(TransactionStatus::Failure(a)), p) }
        6 => { let a = Arc::new(statuses::PreConfirmationFailure(t)); let p = Arc::as_ptr(&a) as usize; (TxStatusMessage::Status(TransactionStatus::PreConfirmationFailure(a)), p) }
        _ => (TxStatusMessage::FailedStatus, 0),
    }
}

/// (kind, payload address, payload tag) of a message
#[cfg(kani)]
fn id_of(m: &TxStatusMessage) -> (u8, usize, u64) {
    match m {
        TxStatusMessage::Status(TransactionStatus::Submitted(a)) => (0, Arc::as_ptr(a) as usize, a.0),
        TxStatusMessage::Status(TransactionStatus::Success(a)) => (1, Arc::as_ptr(a) as usize, a.0),
        TxStatusMessage::Status(TransactionStatus::PreConfirmationSuccess(a)) => (2, Arc::as_ptr(a) as usize, a.0),
        TxStatusMessage::Status(TransactionStatus::SqueezedOut(a)) => (3, Arc::as_ptr(a) as usize, a.0),
        TxStatusMessage::Status(TransactionStatus::PreConfirmationSqueezedOut(a)) => (4, Arc::as_ptr(a) as usize, a.0),
        TxStatusMessage::Status(TransactionStatus::Failure(a)) => (5, Arc::as_ptr(a) as usize, a.0),
        TxStatusMessage::Status(TransactionStatus::PreConfirmationFailure(a)) => (6, Arc::as_ptr(a) as usize, a.0),
        TxStatusMessage::FailedStatus => (7, 0, 0),
    }
}

#[cfg(kani)]
fn abs_state(s: &State) -> u8 {
    match s { State::Empty => 0, State::Failed => 1, State::Closed => 2, _ => 3 }
}

// ---- <Sender<P, Tx> as SendStatus>::try_send: one publication, every message kind, every rest state, every channel answer
//@ harness kind=proof tier=quick timeout=600
#[cfg(kani)]
#[kani::proof]
fn c22_try_send() {
    let kind: u8 = kani::any();
    kani::assume(kind <= 7);
    let st: u8 = kani::any();
    kani::assume(st <= 2);
    let resp: u8 = kani::any();
    kani::assume(resp <= 2);
    let t: u64 = kani::any();
    let (msg, payload) = mk_msg(kind, t);
    let m_final = msg.is_final();
    // the statement's vocabulary: success, failure and both squeeze-outs (and the failure marker) are final
    kani::assert(m_final == (kind == 1 || kind == 3 || kind == 4 || kind == 5 || kind == 7), "[C22.status-stream.try_send.final-statuses-are-success-failure-squeezed-out]");
    let state = match st { 0 => State::Empty, 1 => State::Failed, _ => State::Closed };
    let mut sender: Sender<(), MockTx> = Sender {
        _permit: (),
        stream: tx_status_stream::with_state_for_verif(state),
        tx: MockTx { resp, handed: None, calls: 0 },
        created: Instant,
    };
    let r = sender.try_send(msg);
    let after = abs_state(tx_status_stream::state_for_verif(&sender.stream));
    let hk = handed_kind(st);
    kani::cover!(st == 0 && resp == 1, "[C22.status-stream.try_send.cover-overflow]");
    kani::cover!(st == 1 && resp == 0, "[C22.status-stream.try_send.cover-failed-status-flushed]");
    kani::cover!(st == 0 && resp == 0 && kind == 6, "[C22.status-stream.try_send.cover-preconfirmation-delivered]");
    kani::assert(sender.tx.calls <= 1 && (sender.tx.calls == 1) == (hk != 0), "[C22.status-stream.try_send.hands-over-at-most-one-message-and-none-once-closed]");
    match &sender.tx.handed {
        None => kani::assert(hk == 0, "[C22.status-stream.try_send.handed-message-kind]"),
        Some(h) => {
            let (k2, p2, t2) = id_of(h);
            kani::assert((hk == 1 && k2 == kind && p2 == payload && t2 == (if kind == 7 { 0 } else { t })) || (hk == 2 && k2 == 7), "[C22.status-stream.try_send.handed-message-kind]");
        }
    }
    // the sender rests in {open, overflowed, closed} again, exactly as the abstract transition says
    kani::assert(after == next_state(st, m_final, resp), "[C22.status-stream.try_send.rest-state-follows-abstract-transition]");
    kani::assert(r.is_err() == (after == 2), "[C22.status-stream.try_send.reports-closed-iff-stream-closed]");
    kani::assert(sender.is_closed() == (after == 2), "[C22.status-stream.try_send.is-closed-iff-stream-closed]");
}

// ---- TxUpdateStream as used by a *polling* consumer (add_msg then try_next until None), from every state reachable by
// add_msg/add_failure: what comes out is, in order, the pending earlier status (if any) then the new one; after a final
// status nothing further ever comes out.
#[cfg(kani)]
fn any_state() -> (State, u8) {
    // returns the state and the number of statuses pending in it
    let k: u8 = kani::any();
    kani::assume(k <= 8);
    let nonfinal = |t: u64, which: bool| -> TransactionStatus {
        if which { TransactionStatus::Submitted(Arc::new(statuses::Submitted(t))) } else { TransactionStatus::PreConfirmationSuccess(Arc::new(statuses::PreConfirmationSuccess(t))) }
    };
    let fin = |t: u64| -> TransactionStatus { TransactionStatus::Success(Arc::new(statuses::Success(t))) };
    match k {
        0 => (State::Empty, 0),
        1 => (State::Submitted(nonfinal(kani::any(), true)), 1),
        2 => (State::Preconfirmed(nonfinal(kani::any(), false)), 1),
        3 => (State::EarlySuccess(fin(kani::any())), 1),
        4 => (State::Success(nonfinal(kani::any(), kani::any()), fin(kani::any())), 2),
        5 => (State::Failed, 1),
        6 => (State::LateFailed(nonfinal(kani::any(), kani::any())), 2),
        7 => (State::SenderClosed(fin(kani::any())), 1),
        _ => (State::Closed, 0),
    }
}

//@ harness kind=proof tier=quick timeout=600
#[cfg(kani)]
#[kani::proof]
fn c22_stream_drains_in_order_and_ends_after_final() {
    let (state, pending) = any_state();
    let mut s = tx_status_stream::with_state_for_verif(state);
    // drain: at most `pending` messages come out, every one but the last is non-final, then None forever
    let mut out: [Option<(u8, bool)>; 3] = [None, None, None];
    let mut i = 0;
    while i < 3 {
        if let Some(m) = s.try_next() { out[i] = Some((id_of(&m).0, m.is_final())); }
        i += 1;
    }
    let n = (out[0].is_some() as u8) + (out[1].is_some() as u8) + (out[2].is_some() as u8);
    kani::cover!(n == 2, "[C22.status-stream.stream.cover-two-pending]");
    kani::assert(n == pending, "[C22.status-stream.stream.drain-yields-exactly-the-pending-messages]");
    kani::assert(out[0].is_some() || (out[1].is_none() && out[2].is_none()), "[C22.status-stream.stream.nothing-after-none]");
    kani::assert(out[1].is_some() || out[2].is_none(), "[C22.status-stream.stream.nothing-after-none]");
    // nothing is yielded after a final message
    kani::assert(!(out[0].map_or(false, |x| x.1) && out[1].is_some()), "[C22.status-stream.stream.nothing-after-a-final-message]");
    kani::assert(!(out[1].map_or(false, |x| x.1) && out[2].is_some()), "[C22.status-stream.stream.nothing-after-a-final-message]");
    // and once a final message was yielded the stream is closed for good: later publications are ignored
    if out[0].map_or(false, |x| x.1) || out[1].map_or(false, |x| x.1) {
        kani::assert(s.is_closed(), "[C22.status-stream.stream.closed-after-final-message]");
        let (m, _) = mk_msg(kani::any::<u8>() % 8, kani::any());
        s.add_msg(m);
        kani::assert(s.is_closed() && s.try_next().is_none(), "[C22.status-stream.stream.closed-is-absorbing]");
    }
}

// ---- add_msg: a publication is queued BEHIND what is already pending. From every state (payload tags make every
// message identifiable), after add_msg(m) a polling consumer receives a subsequence of (previously pending ++ [m]) in
// that order, never the same message twice, and everything previously pending that was final-or-before stays.
#[cfg(kani)]
fn any_state_tagged() -> (State, [u64; 2], u8) {
    // (state, tags of the pending statuses in delivery order, how many)
    let k: u8 = kani::any();
    kani::assume(k <= 8);
    let t1: u64 = kani::any();
    let t2: u64 = kani::any();
    kani::assume(t1 != t2 && t1 != 0 && t2 != 0);
    let which: bool = kani::any();
    let nonfinal = |t: u64, which: bool| -> TransactionStatus {
        if which { TransactionStatus::Submitted(Arc::new(statuses::Submitted(t))) } else { TransactionStatus::PreConfirmationSuccess(Arc::new(statuses::PreConfirmationSuccess(t))) }
    };
    let fin = |t: u64| -> TransactionStatus { TransactionStatus::Success(Arc::new(statuses::Success(t))) };
    match k {
        0 => (State::Empty, [0, 0], 0),
        1 => (State::Submitted(nonfinal(t1, true)), [t1, 0], 1),
        2 => (State::Preconfirmed(nonfinal(t1, false)), [t1, 0], 1),
        3 => (State::EarlySuccess(fin(t1)), [t1, 0], 1),
        4 => (State::Success(nonfinal(t1, which), fin(t2)), [t1, t2], 2),
        5 => (State::Failed, [0, 0], 0),
        6 => (State::LateFailed(nonfinal(t1, which)), [t1, 0], 1),
        7 => (State::SenderClosed(fin(t1)), [t1, 0], 1),
        _ => (State::Closed, [0, 0], 0),
    }
}

//@ harness kind=proof tier=quick timeout=600
#[cfg(kani)]
#[kani::proof]
fn c22_add_msg_queues_behind_pending() {
    let (state, pend, _npend) = any_state_tagged();
    let mut s = tx_status_stream::with_state_for_verif(state);
    let kind: u8 = kani::any();
    kani::assume(kind <= 6);
    let tm: u64 = kani::any();
    kani::assume(tm != 0 && tm != pend[0] && tm != pend[1]);
    let (m, _) = mk_msg(kind, tm);
    s.add_msg(m);
    // drain: tags of delivered status messages in order (0 = failure marker / nothing)
    let mut out: [u64; 4] = [0; 4];
    let mut n = 0usize;
    let mut i = 0;
    while i < 4 {
        if let Some(x) = s.try_next() { out[n] = id_of(&x).2; n += 1; }
        i += 1;
    }
    kani::cover!(n == 2 && out[1] == tm, "[C22.status-stream.add_msg.cover-new-message-delivered-second]");
    // position of each delivered tag in the reference order (pending..., new)
    let pos = |t: u64| -> usize { if t == 0 { 9 } else if t == pend[0] { 0 } else if t == pend[1] { 1 } else if t == tm { 2 } else { 8 } };
    let mut k = 0;
    let mut last = 0usize;
    let mut ordered = true;
    let mut known = true;
    while k < 4 {
        if k < n && out[k] != 0 {
            let p = pos(out[k]);
            if p == 8 { known = false; }
            if k > 0 && out[k - 1] != 0 && p <= last { ordered = false; }
            last = p;
        }
        k += 1;
    }
    kani::assert(known, "[C22.status-stream.add_msg.delivers-only-pending-or-the-new-message]");
    kani::assert(ordered, "[C22.status-stream.add_msg.new-message-is-delivered-after-everything-pending-and-nothing-twice]");
    // (a pending NON-final status may be superseded by a newer non-final one for a subscriber that does not drain: the
    //  statement allows dropped intermediate statuses, so that is not an obligation)
}

// Vacuity canary: "the sender never closes" must FAIL.
//@ harness kind=canary tier=quick expect=C22.status-stream.canary.never-closes timeout=600
#[cfg(kani)]
#[kani::proof]
fn c22_canary() {
    let (msg, _p) = mk_msg(1, kani::any());
    let mut sender: Sender<(), MockTx> = Sender { _permit: (), stream: TxUpdateStream::new(),
        tx: MockTx { resp: 0, handed: None, calls: 0 }, created: Instant };
    let r = sender.try_send(msg);
    kani::assert(r.is_ok(), "[C22.status-stream.canary.never-closes]");
}
