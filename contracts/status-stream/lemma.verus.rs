// From the per-publication contract of Sender::try_send (Kani, real code) to every publication history of one
// subscriber: delivered messages are a subsequence of the publications (in order, no duplicates - at step i only
// publication i or the failure marker can be handed over), nothing is delivered after a final message or after the
// stream closed, and a subscriber whose channel always accepts receives every publication up to and including the
// first final one and is then closed.
use vstd::prelude::*;
verus! {

//@ include-pred pred.rs

pub struct Pub { pub is_final: bool, pub resp: u8 }

// state before publication i (sender created open)
pub open spec fn state_at(ps: Seq<Pub>, i: int) -> u8
    decreases i
{
    if i <= 0 { 0u8 } else { next_state(state_at(ps, i - 1), ps[i - 1].is_final, ps[i - 1].resp) }
}
// publication i itself reaches the subscriber
pub open spec fn delivered_own(ps: Seq<Pub>, i: int) -> bool { handed_kind(state_at(ps, i)) == 1 && ps[i].resp == 0 }
// the failure marker reaches the subscriber at step i
pub open spec fn delivered_marker(ps: Seq<Pub>, i: int) -> bool { handed_kind(state_at(ps, i)) == 2 && ps[i].resp == 0 }

pub proof fn lemma_states(ps: Seq<Pub>, i: int)
    requires 0 <= i <= ps.len(),
    ensures state_at(ps, i) <= 2,
            // closed is absorbing, overflowed lasts exactly one publication
            forall|j: int| 0 <= j <= i && state_at(ps, j) == 2 ==> state_at(ps, i) == 2,
    decreases i,
{
    if i > 0 { lemma_states(ps, i - 1); }
}

// nothing is delivered after a delivered final message, after an overflow only the marker, nothing once closed
pub proof fn lemma_nothing_after_final(ps: Seq<Pub>, i: int, j: int)
    requires 0 <= i < j < ps.len(), ps[i].is_final, handed_kind(state_at(ps, i)) == 1,
    ensures !delivered_own(ps, j), !delivered_marker(ps, j),
{
    lemma_states(ps, j);
    assert(state_at(ps, i + 1) == 2);
}

pub proof fn lemma_after_overflow_only_marker_then_end(ps: Seq<Pub>, i: int, j: int)
    requires 0 <= i < j < ps.len(), state_at(ps, i) == 0, !ps[i].is_final, ps[i].resp == 1,
    ensures !delivered_own(ps, j), j > i + 1 ==> !delivered_marker(ps, j), state_at(ps, i + 1) == 1,
{
    lemma_states(ps, j);
    assert(state_at(ps, i + 1) == 1);
    if j > i + 1 {
        assert(state_at(ps, i + 2) == 2);
    }
}

// a draining subscriber (channel always accepts): every publication before the first final one is delivered,
// the first final one is delivered, and the sender is closed right after it
pub proof fn lemma_draining_subscriber(ps: Seq<Pub>, k: int)
    requires 0 <= k < ps.len(),
             forall|i: int| 0 <= i < ps.len() ==> (#[trigger] ps[i]).resp == 0,
             forall|i: int| 0 <= i < k ==> !(#[trigger] ps[i]).is_final,
    ensures state_at(ps, k) == 0, delivered_own(ps, k),
            ps[k].is_final ==> state_at(ps, k + 1) == 2,
    decreases k,
{
    if k > 0 { lemma_draining_subscriber(ps, k - 1); }
}

} // verus!
fn main() {}
