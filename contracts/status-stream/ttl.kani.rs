// Scratch crate generated on every run. Pasted from /repo's current working tree (header and body byte for byte):
//   tx_status_manager update_sender.rs : remove_closed_and_expired
// Stand-ins (trusted, listed in unit.toml): HashMap is its contract - exact for one probed transaction id, one further entry
// standing for every other id; Vec is a list of at most 2 subscribers with an order-preserving retain; Sender carries only what
// this function looks at (creation time, whether the subscriber hung up) plus an identity; the clock counts half seconds.
#![allow(unused)]
use core::time::Duration;
#[derive(Clone, Copy, Debug, PartialEq, Eq)] pub struct Bytes32(pub u64);
/// harness clock in half seconds: `created.elapsed()` = now - created
#[derive(Clone, Copy, Debug)] pub struct Instant(pub u64);
pub static mut NOW_HALF_SECONDS: u64 = 0;
pub fn half_seconds(d: u64) -> Duration { Duration::new(d >> 1, ((d & 1) as u32) * 500_000_000) }
impl Instant { pub fn elapsed(&self) -> Duration { half_seconds(unsafe { NOW_HALF_SECONDS }.saturating_sub(self.0)) } }
#[derive(Clone, Copy, Debug, PartialEq, Eq)] pub struct TxStatusMessage(pub u8);
#[derive(Debug)] pub enum SendError { Full, Closed }
pub struct TxUpdate { pub tx_id: Bytes32, pub message: TxStatusMessage }
impl TxUpdate { pub fn tx_id(&self) -> &Bytes32 { &self.tx_id } pub fn into_msg(self) -> TxStatusMessage { self.message } }
pub trait SendStatus { fn try_send(&mut self, msg: TxStatusMessage) -> Result<(), SendError>; fn is_closed(&self) -> bool; }
/// the subscriber's channel end; CONTRACT of Sender::try_send (proved in the `stream` crate of this unit): it accepts or refuses
/// the message; here it records what it was handed
pub struct Chan { pub closed: bool, pub accepts: bool, pub got: Option<TxStatusMessage>, pub times: u8 }
impl SendStatus for Chan {
    fn try_send(&mut self, msg: TxStatusMessage) -> Result<(), SendError> { self.got = Some(msg); self.times += 1; unsafe { if N_SENT < 4 { SENT_ORDER[N_SENT] = self.times; } N_SENT += 1; } if self.accepts { Ok(()) } else { Err(SendError::Full) } }
    fn is_closed(&self) -> bool { self.closed }
}
pub static mut N_SENT: usize = 0;
pub static mut SENT_ORDER: [u8; 4] = [0; 4];
pub struct Sender<P, Tx> { pub _permit: P, pub tx: Tx, pub created: Instant, pub id: u8 }
impl<P, Tx: SendStatus> SendStatus for Sender<P, Tx> {
    fn try_send(&mut self, msg: TxStatusMessage) -> Result<(), SendError> { unsafe { if N_ORDER < 4 { ORDER[N_ORDER] = self.id; } N_ORDER += 1; } self.tx.try_send(msg) }
    fn is_closed(&self) -> bool { self.tx.is_closed() }
}
/// ids of the subscribers in the order they were handed a message
pub static mut ORDER: [u8; 4] = [0; 4];
pub static mut N_ORDER: usize = 0;
pub type Permit = ();
pub type Tx = Chan;
pub struct Mutex<T>(pub core::cell::RefCell<T>);
impl<T> Mutex<T> { pub fn lock(&self) -> core::cell::RefMut<'_, T> { self.0.borrow_mut() } }
pub struct UpdateSender { pub senders: Mutex<SenderMap<Permit, Tx>>, pub ttl: Duration }
impl UpdateSender {
//@ extract crates/services/tx_status_manager/src/update_sender.rs UpdateSender::send
//@ end
}
/// Vec: at most 2 elements; retain keeps order
pub struct Vec<T> { pub items: [Option<T>; 2] }
impl<T> Vec<T> {
    pub fn retain<F: FnMut(&T) -> bool>(&mut self, mut f: F) {
        let a = self.items[0].take(); let b = self.items[1].take();
        let a = match a { Some(x) => if f(&x) { Some(x) } else { None }, None => None };
        let b = match b { Some(x) => if f(&x) { Some(x) } else { None }, None => None };
        if a.is_some() { self.items = [a, b]; } else { self.items = [b, None]; }
    }
    pub fn retain_mut<F: FnMut(&mut T) -> bool>(&mut self, mut f: F) {
        let a = self.items[0].take(); let b = self.items[1].take();
        let a = match a { Some(mut x) => if f(&mut x) { Some(x) } else { None }, None => None };
        let b = match b { Some(mut x) => if f(&mut x) { Some(x) } else { None }, None => None };
        if a.is_some() { self.items = [a, b]; } else { self.items = [b, None]; }
    }
    pub fn is_empty(&self) -> bool { self.items[0].is_none() && self.items[1].is_none() }
    pub fn len(&self) -> usize { self.items[0].is_some() as usize + self.items[1].is_some() as usize }
}
/// HashMap: the probed id's entry and one entry standing for any other id
pub struct HashMap<K, V> { pub probe: K, pub at_probe: Option<V>, pub other: K, pub at_other: Option<V> }
impl<K: Copy + PartialEq, V> HashMap<K, V> {
    pub fn get_mut(&mut self, k: &K) -> Option<&mut V> { if *k == self.probe { self.at_probe.as_mut() } else if *k == self.other { self.at_other.as_mut() } else { None } }
    pub fn get(&self, k: &K) -> Option<&V> { if *k == self.probe { self.at_probe.as_ref() } else if *k == self.other { self.at_other.as_ref() } else { None } }
    pub fn remove(&mut self, k: &K) -> Option<V> { if *k == self.probe { self.at_probe.take() } else if *k == self.other { self.at_other.take() } else { None } }
    pub fn retain<F: FnMut(&K, &mut V) -> bool>(&mut self, mut f: F) {
        if let Some(mut v) = self.at_probe.take() { let k = self.probe; if f(&k, &mut v) { self.at_probe = Some(v); } }
        if let Some(mut v) = self.at_other.take() { let k = self.other; if f(&k, &mut v) { self.at_other = Some(v); } }
    }
}
type SenderMap<P, Tx> = HashMap<Bytes32, Vec<Sender<P, Tx>>>; // (alias copied by hand)
//@ extract crates/services/tx_status_manager/src/update_sender.rs remove_closed_and_expired
//@ end

#[cfg(kani)]
fn any_list(now: u64) -> (Vec<Sender<(), Chan>>, [(bool, bool, u64, u8); 2]) {
    let mut d = [(false, false, 0u64, 0u8); 2];
    let mut mk = |i: usize| -> Option<Sender<(), Chan>> {
        let (present, closed, created, id): (bool, bool, u64, u8) = (kani::any(), kani::any(), kani::any(), kani::any());
        kani::assume(created <= now);
        d[i] = (present, closed, now - created, id);
        if present { Some(Sender { _permit: (), tx: Chan { closed, accepts: kani::any(), got: None, times: 0 }, created: Instant(created), id }) } else { None }
    };
    let a = mk(0); let b = if a.is_some() { mk(1) } else { None };
    (Vec { items: [a, b] }, d)
}
// Cleaning the subscriber table: a subscriber is dropped exactly when it hung up or is at least `ttl` old - a live subscriber
// younger than the TTL always stays, in its place (so it keeps receiving in subscription order), and an id is forgotten exactly
// when none of its subscribers stays.
//@ harness kind=proof tier=quick prop=C22 timeout=600 extra="--default-unwind 4"
#[cfg(kani)]
#[kani::proof]
fn c22_table_cleaning_keeps_exactly_live_young_subscribers() {
    let now: u64 = kani::any(); kani::assume(now < (1 << 40));
    unsafe { NOW_HALF_SECONDS = now; }
    let ttl_h: u64 = kani::any(); kani::assume(ttl_h < (1 << 40));
    let (l, d) = any_list(now);
    let (lo, dother) = any_list(now);
    let other_present: bool = kani::any();
    let mut map: SenderMap<(), Chan> = HashMap { probe: Bytes32(kani::any()), at_probe: Some(l), other: Bytes32(kani::any()), at_other: if other_present { Some(lo) } else { None } };
    remove_closed_and_expired(&mut map, half_seconds(ttl_h));
    let stays = |x: (bool, bool, u64, u8)| x.0 && !x.1 && x.2 < ttl_h;
    let (s0, s1) = (stays(d[0]), d[0].0 && stays(d[1]));
    kani::cover!(s0 && !s1 && d[1].0, "[C22.status-stream.table.cover-one-of-two-subscribers-dropped]");
    let ids = |v: &Option<Vec<Sender<(), Chan>>>| -> [Option<u8>; 2] { match v { Some(v) => [v.items[0].as_ref().map(|s| s.id), v.items[1].as_ref().map(|s| s.id)], None => [None, None] } };
    let got = ids(&map.at_probe);
    let want = if s0 && s1 { [Some(d[0].3), Some(d[1].3)] } else if s0 { [Some(d[0].3), None] } else if s1 { [Some(d[1].3), None] } else { [None, None] };
    kani::assert(got == want, "[C22.status-stream.table.exactly-the-open-subscribers-younger-than-the-ttl-stay-in-subscription-order]");
    kani::assert(map.at_probe.is_some() == (s0 || s1), "[C22.status-stream.table.an-id-is-forgotten-exactly-when-no-subscriber-of-it-stays]");
    if other_present {
        let (o0, o1) = (stays(dother[0]), dother[0].0 && stays(dother[1]));
        kani::assert(map.at_other.is_some() == (o0 || o1), "[C22.status-stream.table.every-other-id-is-cleaned-by-the-same-rule]");
    } else { kani::assert(map.at_other.is_none(), "[C22.status-stream.table.every-other-id-is-cleaned-by-the-same-rule]"); }
}

// Publishing one status: it is handed, exactly once and in subscription order, to every subscriber of that transaction that is
// open and younger than the TTL - and to nobody else; a subscriber that refuses it is dropped, the others stay in order; the id
// is forgotten exactly when nobody stays.
//@ harness kind=bounded tier=quick prop=C22 bound="at most 2 subscribers per transaction id" timeout=600 extra="--default-unwind 4"
#[cfg(kani)]
#[kani::proof]
fn c22_send_reaches_exactly_the_live_subscribers_of_the_id_in_order() {
    let now: u64 = kani::any(); kani::assume(now < (1 << 40));
    unsafe { NOW_HALF_SECONDS = now; N_ORDER = 0; N_SENT = 0; }
    let ttl_h: u64 = kani::any(); kani::assume(ttl_h < (1 << 40));
    let (l, d) = any_list(now);
    let acc = [l.items[0].as_ref().map(|s| s.tx.accepts).unwrap_or(false), l.items[1].as_ref().map(|s| s.tx.accepts).unwrap_or(false)];
    kani::assume(d[0].3 != d[1].3);
    let (lo, _dother) = any_list(now);
    let (probe, other) = (Bytes32(kani::any()), Bytes32(kani::any())); kani::assume(probe != other);
    let us = UpdateSender { senders: Mutex(core::cell::RefCell::new(HashMap { probe, at_probe: Some(l), other, at_other: Some(lo) })), ttl: half_seconds(ttl_h) };
    let msg = TxStatusMessage(kani::any());
    us.send(TxUpdate { tx_id: probe, message: msg });
    let stays = |x: (bool, bool, u64, u8)| x.0 && !x.1 && x.2 < ttl_h;
    let (s0, s1) = (stays(d[0]), d[0].0 && stays(d[1]));
    let want_order: [Option<u8>; 2] = if s0 && s1 { [Some(d[0].3), Some(d[1].3)] } else if s0 { [Some(d[0].3), None] } else if s1 { [Some(d[1].3), None] } else { [None, None] };
    let n = unsafe { N_ORDER }; let order = unsafe { ORDER };
    kani::cover!(s0 && s1 && !acc[0] && acc[1], "[C22.status-stream.table.cover-first-of-two-live-subscribers-refuses]");
    kani::assert(n == want_order[0].is_some() as usize + want_order[1].is_some() as usize && (n < 1 || Some(order[0]) == want_order[0]) && (n < 2 || Some(order[1]) == want_order[1]),
        "[C22.status-stream.table.status-is-handed-once-to-each-live-subscriber-of-its-transaction-in-subscription-order-and-to-nobody-else]");
    let map = us.senders.lock();
    let k0 = s0 && acc[0]; let k1 = s1 && acc[1];
    let want_left: [Option<u8>; 2] = if k0 && k1 { [Some(d[0].3), Some(d[1].3)] } else if k0 { [Some(d[0].3), None] } else if k1 { [Some(d[1].3), None] } else { [None, None] };
    let got_left: [Option<u8>; 2] = match &map.at_probe { Some(v) => [v.items[0].as_ref().map(|s| s.id), v.items[1].as_ref().map(|s| s.id)], None => [None, None] };
    kani::assert(got_left == want_left, "[C22.status-stream.table.subscribers-that-refuse-are-dropped-and-the-others-stay-in-order]");
    kani::assert(map.at_probe.is_some() == (k0 || k1), "[C22.status-stream.table.an-id-is-forgotten-exactly-when-no-subscriber-of-it-stays]");
    if let Some(v) = &map.at_probe { let a = v.items[0].as_ref(); kani::assert(a.map(|s| s.tx.got == Some(msg) && s.tx.times == 1).unwrap_or(true), "[C22.status-stream.table.the-status-handed-over-is-the-one-published]"); }
    if let Some(v) = &map.at_other { kani::assert(v.items[0].as_ref().map(|s| s.tx.times == 0).unwrap_or(true) && v.items[1].as_ref().map(|s| s.tx.times == 0).unwrap_or(true), "[C22.status-stream.table.subscribers-of-other-transactions-get-nothing]"); }
}
