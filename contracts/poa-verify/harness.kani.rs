// Contract harness for fuel_core_poa::verifier::verify_block_fields (real code; hashes are uninterpreted stubs).
use super::*;
use fuel_core_storage::Result as StorageResult;
use fuel_core_types::{
    blockchain::header::{ApplicationHeader, v1::GeneratedApplicationFieldsV1, BlockHeaderV1},
    blockchain::primitives::DaBlockHeight,
    fuel_types::{BlockHeight, Bytes32},
    tai64::Tai64,
};

static mut G_APP_HASH: [u8; 32] = [0; 32];
static mut G_VALID_TXS: bool = false;
static mut G_ROOT_ASKED: u32 = 0;
static mut G_HEADER_ASKED: u32 = 0;

fn any_bytes32() -> [u8; 32] { kani::any() }

fn stub_app_hash(_a: &ApplicationHeader<GeneratedApplicationFieldsV1>) -> Bytes32 { Bytes32::from(unsafe { G_APP_HASH }) }
fn stub_validate_txs(_h: &BlockHeader, _t: &[fuel_core_types::fuel_tx::Transaction]) -> bool { unsafe { G_VALID_TXS } }
fn stub_no_recalc(_h: &mut BlockHeaderV1) {}
fn stub_bt() -> std::backtrace::Backtrace { std::backtrace::Backtrace::disabled() }

struct MockDb { root_ok: bool, root: [u8; 32], hdr_ok: bool, da: u64, time: u64 }
impl Database for MockDb {
    fn block_header(&self, height: &BlockHeight) -> StorageResult<BlockHeader> {
        unsafe { G_HEADER_ASKED = **height; }
        if !self.hdr_ok { return Err(fuel_core_storage::Error::NotFound("mock", "mock")) }
        let mut h = BlockHeader::default();
        h.set_da_height(DaBlockHeight(self.da));
        h.set_time(Tai64(self.time));
        Ok(h)
    }
    fn block_header_merkle_root(&self, height: &BlockHeight) -> StorageResult<Bytes32> {
        unsafe { G_ROOT_ASKED = **height; }
        if !self.root_ok { return Err(fuel_core_storage::Error::NotFound("mock", "mock")) }
        Ok(Bytes32::from(self.root))
    }
}

//@ harness kind=proof tier=quick timeout=1800
#[kani::proof]
#[kani::stub(ApplicationHeader::<GeneratedApplicationFieldsV1>::hash, stub_app_hash)]
#[kani::stub(BlockHeader::validate_transactions, stub_validate_txs)]
#[kani::stub(BlockHeaderV1::recalculate_metadata, stub_no_recalc)]
#[kani::stub(std::backtrace::Backtrace::capture, stub_bt)]
fn c15_verify_block_fields() {
    let height: u32 = kani::any();
    let prev_root = any_bytes32();
    let da: u64 = kani::any();
    let time: u64 = kani::any();
    let app_hash = any_bytes32();
    unsafe { G_APP_HASH = any_bytes32(); G_VALID_TXS = kani::any(); }
    let db = MockDb { root_ok: kani::any(), root: any_bytes32(), hdr_ok: kani::any(), da: kani::any(), time: kani::any() };

    let mut block = Block::default();
    {
        let h = block.header_mut();
        h.set_block_height(height.into());
        h.set_previous_root(Bytes32::from(prev_root));
        h.set_da_height(DaBlockHeight(da));
        h.set_time(Tai64(time));
        h.set_application_hash(Bytes32::from(app_hash));
    }
    let r = verify_block_fields(&db, &block);
    let ok = r.is_ok();
    core::mem::forget(r);
    let (computed_app_hash, valid_txs, root_asked, header_asked) = unsafe { (G_APP_HASH, G_VALID_TXS, G_ROOT_ASKED, G_HEADER_ASKED) };
    kani::cover!(ok, "[C15.poa-verify.fields.cover-accepted]");
    kani::cover!(!ok && height != 0 && db.root_ok && db.root == prev_root && db.hdr_ok && da >= db.da && time < db.time, "[C15.poa-verify.fields.cover-rejected-for-time-only]");
    kani::assert(!ok || height != 0, "[C15.poa-verify.fields.accepted-only-with-nonzero-height]");
    kani::assert(!ok || (db.root_ok && root_asked == height - 1 && db.root == prev_root), "[C15.poa-verify.fields.accepted-only-if-prev-root-is-parent-block-merkle-root]");
    kani::assert(!ok || (db.hdr_ok && header_asked == height - 1 && da >= db.da), "[C15.poa-verify.fields.accepted-only-if-da-height-not-below-parent]");
    kani::assert(!ok || (db.hdr_ok && time >= db.time), "[C15.poa-verify.fields.accepted-only-if-time-not-below-parent]");
    kani::assert(!ok || app_hash == computed_app_hash, "[C15.poa-verify.fields.accepted-only-if-application-hash-matches-content]");
    kani::assert(!ok || valid_txs, "[C15.poa-verify.fields.accepted-only-if-transactions-match-header]");
    core::mem::forget(block);
}

// Vacuity canary: "every block is rejected" must FAIL.
//@ harness kind=canary tier=quick expect=C15.poa-verify.canary.always-rejects timeout=1800
#[kani::proof]
#[kani::stub(ApplicationHeader::<GeneratedApplicationFieldsV1>::hash, stub_app_hash)]
#[kani::stub(BlockHeader::validate_transactions, stub_validate_txs)]
#[kani::stub(BlockHeaderV1::recalculate_metadata, stub_no_recalc)]
#[kani::stub(std::backtrace::Backtrace::capture, stub_bt)]
fn c15_canary() {
    unsafe { G_APP_HASH = [0; 32]; G_VALID_TXS = true; }
    let db = MockDb { root_ok: true, root: [0; 32], hdr_ok: true, da: 0, time: 0 };
    let mut block = Block::default();
    block.header_mut().set_block_height(kani::any::<u32>().into());
    block.header_mut().set_application_hash(Bytes32::from([0u8; 32]));
    let r = verify_block_fields(&db, &block);
    let ok = r.is_ok();
    core::mem::forget(r);
    kani::assert(!ok, "[C15.poa-verify.canary.always-rejects]");
    core::mem::forget(block);
}
