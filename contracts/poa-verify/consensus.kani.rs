// Scratch crate generated on every run. Pasted from /repo's current working tree (header and body byte for byte):
//   consensus_module/poa/src/verifier.rs : verify_consensus
//   chain-config/src/config/consensus.rs : enum ConsensusConfig, struct PoAV2, PoAV2::{address_for_height, latest_address}
//   types/src/blockchain/header/v1.rs    : BlockHeaderV1::validate_transactions
// Stand-ins (trusted, listed in unit.toml): secp256k1 recovery is a recording mock (any Result), Input::owner is an
// uninterpreted injective function of the recovered key, the block id / message are opaque values carried by the header,
// generate_txns_root is an uninterpreted function recorded by the harness, Transaction is an opaque zero-sized item.
#![allow(unused)]
use core::cell::Cell;

/// CONTRACT of alloc::collections::BTreeMap as far as the key schedule uses it (ordered map: `range(..=k)` yields the
/// entries with key <= k in ascending key order), for at most 2 entries kept sorted. The real B-tree costs CBMC minutes.
#[derive(Clone, Debug, PartialEq, Eq)]
pub struct BTreeMap<K, V> { pub items: [Option<(K, V)>; 2] }
impl<K: Ord + Copy, V> BTreeMap<K, V> {
    pub fn new() -> Self { BTreeMap { items: [None, None] } }
    pub fn insert(&mut self, k: K, v: V) {
        // keeps `items` sorted and Some-first (harness inserts distinct keys, at most two)
        match (&self.items[0], &self.items[1]) {
            (None, _) => { self.items[0] = Some((k, v)); }
            (Some((k0, _)), None) => {
                if k < *k0 { self.items[1] = self.items[0].take(); self.items[0] = Some((k, v)); } else { self.items[1] = Some((k, v)); }
            }
            _ => panic!("stand-in BTreeMap holds at most 2 entries"),
        }
    }
    pub fn is_empty(&self) -> bool { self.items[0].is_none() }
    pub fn range(&self, r: core::ops::RangeToInclusive<K>) -> impl DoubleEndedIterator<Item = (&K, &V)> {
        let end = r.end;
        self.items.iter().filter_map(|e| e.as_ref()).filter(move |(k, _)| *k <= end).map(|(k, v)| (k, v))
    }
    pub fn last_key_value(&self) -> Option<(&K, &V)> {
        self.items.iter().filter_map(|e| e.as_ref()).map(|(k, v)| (k, v)).last()
    }
}

#[derive(Clone, Copy, Debug, PartialEq, Eq, PartialOrd, Ord, Default)]
pub struct BlockHeight(pub u32);
#[derive(Clone, Copy, Debug, PartialEq, Eq)]
pub struct Address(pub u64);
#[derive(Clone, Copy, Debug, PartialEq, Eq)]
pub struct PublicKey(pub u64);
#[derive(Clone, Copy, Debug, PartialEq, Eq)]
pub struct Message(pub u64);
#[derive(Clone, Copy, Debug, PartialEq, Eq)]
pub struct BlockId(pub Message);
impl BlockId { pub fn as_message(&self) -> &Message { &self.0 } }
pub struct Input;
impl Input { pub fn owner(k: &PublicKey) -> Address { Address(k.0 ^ 0x5a5a) } }
pub struct RecoverError;
pub struct Signature { pub answer: Result<PublicKey, ()>, pub asked: Cell<Option<Message>> }
impl Signature {
    pub fn recover(&self, m: &Message) -> Result<PublicKey, RecoverError> { self.asked.set(Some(*m)); self.answer.map_err(|_| RecoverError) }
}
pub struct PoAConsensus { pub signature: Signature }
pub struct BlockHeader { pub id: BlockId, pub height: BlockHeight }
impl BlockHeader { pub fn id(&self) -> BlockId { self.id } pub fn height(&self) -> &BlockHeight { &self.height } }

#[derive(Clone, Debug, Eq, PartialEq)]
//@ extract crates/chain-config/src/config/consensus.rs enum ConsensusConfig
//@ end
#[derive(Clone, Debug, Eq, PartialEq)]
//@ extract crates/chain-config/src/config/consensus.rs struct PoAV2
//@ end
impl PoAV2 {
//@ extract crates/chain-config/src/config/consensus.rs PoAV2::address_for_height
//@ end
//@ extract crates/chain-config/src/config/consensus.rs PoAV2::latest_address
//@ end
}
//@ extract crates/services/consensus_module/poa/src/verifier.rs verify_consensus
//@ end

// ---- header vs. transactions
pub struct Transaction;
#[derive(Clone, Copy, PartialEq, Eq, Debug)]
pub struct Bytes32(pub u64);
pub struct GeneratedApplicationFieldsV1 { pub transactions_count: u16, pub transactions_root: Bytes32 }
pub struct ApplicationHeader<G> { pub generated: G }
impl<G> core::ops::Deref for ApplicationHeader<G> { type Target = G; fn deref(&self) -> &G { &self.generated } }
pub struct BlockHeaderV1 { pub application: ApplicationHeader<GeneratedApplicationFieldsV1> }
thread_local! {}
static mut G_ROOT: u64 = 0;
static mut G_ROOT_LEN: usize = 0;
pub fn generate_txns_root(transactions: &[Transaction]) -> Bytes32 { unsafe { G_ROOT_LEN = transactions.len(); Bytes32(G_ROOT) } }
impl BlockHeaderV1 {
    pub fn application(&self) -> &ApplicationHeader<GeneratedApplicationFieldsV1> { &self.application }
//@ extract crates/types/src/blockchain/header/v1.rs BlockHeaderV1::validate_transactions
//@ end
}

// =====================================================================================================================
/// the statement's "signing key configured for its height": the override with the greatest start height <= h, else genesis
#[cfg(kani)]
fn key_for(genesis: Address, o1: Option<(u32, Address)>, o2: Option<(u32, Address)>, h: u32) -> Address {
    let mut best: Option<(u32, Address)> = None;
    if let Some((s, k)) = o1 { if s <= h { best = Some((s, k)); } }
    if let Some((s, k)) = o2 { if s <= h && best.map_or(true, |(bs, _)| s >= bs) { best = Some((s, k)); } }
    best.map_or(genesis, |(_, k)| k)
}

//@ harness kind=bounded tier=quick bound="key schedule with at most 2 overrides" timeout=600 extra="--default-unwind 6"
#[cfg(kani)]
#[kani::proof]
fn c15_verify_consensus() {
    let genesis = Address(kani::any());
    let v2: bool = kani::any();
    let n_over: u8 = kani::any();
    kani::assume(n_over <= 2);
    let (s1, k1, s2, k2): (u32, u64, u32, u64) = (kani::any(), kani::any(), kani::any(), kani::any());
    kani::assume(s1 != s2);
    let mut overrides = BTreeMap::new();
    if n_over >= 1 { overrides.insert(BlockHeight(s1), Address(k1)); }
    if n_over >= 2 { overrides.insert(BlockHeight(s2), Address(k2)); }
    let cfg = if v2 { ConsensusConfig::PoAV2(PoAV2 { genesis_signing_key: genesis, signing_key_overrides: overrides }) } else { ConsensusConfig::PoA { signing_key: genesis } };
    let h: u32 = kani::any();
    let id = BlockId(Message(kani::any()));
    let header = BlockHeader { id, height: BlockHeight(h) };
    let rec_ok: bool = kani::any();
    let rec_key = PublicKey(kani::any());
    let consensus = PoAConsensus { signature: Signature { answer: if rec_ok { Ok(rec_key) } else { Err(()) }, asked: Cell::new(None) } };
    let accepted = verify_consensus(&cfg, &header, &consensus);
    let expected_key = if v2 { key_for(genesis, if n_over >= 1 { Some((s1, Address(k1))) } else { None }, if n_over >= 2 { Some((s2, Address(k2))) } else { None }, h) } else { genesis };
    kani::cover!(accepted && v2 && n_over == 2 && expected_key == Address(k1) && s1 < s2, "[C15.poa-verify.consensus.cover-accepted-with-earlier-of-two-overrides]");
    kani::cover!(!accepted && rec_ok, "[C15.poa-verify.consensus.cover-wrong-signer-rejected]");
    kani::assert(accepted == (rec_ok && Input::owner(&rec_key) == expected_key), "[C15.poa-verify.consensus.accepted-iff-signature-recovers-to-key-configured-for-the-height]");
    kani::assert(consensus.signature.asked.get() == Some(id.0), "[C15.poa-verify.consensus.signature-is-checked-against-this-blocks-id]");
}

//@ harness kind=proof tier=quick timeout=600
#[cfg(kani)]
#[kani::proof]
fn c15_validate_transactions() {
    let count: u16 = kani::any();
    let root = Bytes32(kani::any());
    unsafe { G_ROOT = kani::any(); }
    let len: usize = kani::any();
    // a slice of zero-sized items can have any length
    let txs: &[Transaction] = unsafe { core::slice::from_raw_parts(core::ptr::NonNull::<Transaction>::dangling().as_ptr(), len) };
    let header = BlockHeaderV1 { application: ApplicationHeader { generated: GeneratedApplicationFieldsV1 { transactions_count: count, transactions_root: root } } };
    let ok = header.validate_transactions(txs);
    let (computed, hashed_len) = unsafe { (G_ROOT, G_ROOT_LEN) };
    kani::cover!(ok && len > 0, "[C15.poa-verify.transactions.cover-accepted]");
    kani::cover!(!ok && len > 65535 && Bytes32(computed) == root, "[C15.poa-verify.transactions.cover-too-many-transactions-rejected]");
    kani::assert(ok == (Bytes32(computed) == root && len == count as usize), "[C15.poa-verify.transactions.accepted-iff-root-and-count-match-the-content]");
    kani::assert(hashed_len == len, "[C15.poa-verify.transactions.root-is-computed-over-all-transactions]");
}
