// Scratch crate generated on every run. Pasted from /repo's current working tree (header and body byte for byte):
//   sync/src/import.rs : struct Batch, impl Batch, check_sealed_header, get_sealed_block_headers, get_transactions,
//                        get_headers_batch, report_peer, get_blocks, execute_and_commit
//   fuel-core-types services/p2p.rs : struct SourcePeer, impl SourcePeer (map), PeerId::bind
// Stand-ins (trusted, listed in unit.toml): the three ports are recording mocks that answer as the harness chose; block
// headers carry a height and an opaque transactions commitment; Block::try_from_executed (header vs. transactions
// check, C15's validate_transactions) is the uninterpreted predicate "commitment tag == transactions tag"; the sync State
// records commits; tracing / trace_err are no-ops.
#![allow(unused)]
#![allow(async_fn_in_trait)]
extern crate alloc;
use core::cell::{Cell, RefCell};
use core::ops::Range;
use std::sync::Arc;

#[macro_export] macro_rules! __noop { ($($t:tt)*) => {{}} }
pub mod tracing { pub use crate::__noop as error; pub use crate::__noop as info; pub use crate::__noop as warn; pub use crate::__noop as debug; }
pub trait TraceErr { fn trace_err(self, msg: &str) -> Self; }
impl<T, E> TraceErr for Result<T, E> { fn trace_err(self, _msg: &str) -> Self { self } }

#[derive(Clone, Copy, Debug, PartialEq, Eq, PartialOrd, Ord, Default)]
pub struct BlockHeight(pub u32);
impl From<u32> for BlockHeight { fn from(h: u32) -> Self { BlockHeight(h) } }
impl core::ops::Deref for BlockHeight { type Target = u32; fn deref(&self) -> &u32 { &self.0 } }
#[derive(Clone, Debug, PartialEq, Eq, Default)]
pub struct PeerId(pub u8);
#[derive(Clone, Copy, Debug, PartialEq, Eq)]
pub struct Consensus(pub u64);
#[derive(Clone, Debug, PartialEq, Eq)]
pub struct BlockHeader { pub height: BlockHeight, pub tx_commitment: u64 }
impl BlockHeader { pub fn height(&self) -> &BlockHeight { &self.height } }
#[derive(Clone, Debug, PartialEq, Eq)]
pub struct SealedBlockHeader { pub entity: BlockHeader, pub consensus: Consensus }
#[derive(Clone, Debug, PartialEq, Eq)]
pub struct Transactions(pub u64);
#[derive(Clone, Debug, PartialEq, Eq)]
pub struct Block { pub header: BlockHeader, pub txs: u64 }
impl Block {
    pub fn try_from_executed(header: BlockHeader, txs: u64) -> Option<Block> { if header.tx_commitment == txs { Some(Block { header, txs }) } else { None } }
    pub fn header(&self) -> &BlockHeader { &self.header }
}
#[derive(Clone, Debug, PartialEq, Eq)]
pub struct SealedBlock { pub entity: Block, pub consensus: Consensus }

#[derive(Clone, Copy, Debug, PartialEq, Eq)]
//@ extract crates/services/sync/src/ports.rs enum PeerReportReason
//@ end

#[derive(Default, Debug, Clone, PartialEq, Eq)]
//@ extract crates/types/src/services/p2p.rs struct SourcePeer
//@ end
//@ extract crates/types/src/services/p2p.rs impl SourcePeer
//@ end
impl PeerId {
//@ extract crates/types/src/services/p2p.rs PeerId::bind
//@ end
}

pub trait PeerToPeerPort {
    async fn get_sealed_block_headers(&self, r: Range<u32>) -> anyhow::Result<SourcePeer<Option<Vec<SealedBlockHeader>>>>;
    async fn get_transactions(&self, r: Range<u32>) -> anyhow::Result<SourcePeer<Option<Vec<Transactions>>>>;
    async fn get_transactions_from_peer(&self, r: SourcePeer<Range<u32>>) -> anyhow::Result<Option<Vec<Transactions>>>;
    fn report_peer(&self, peer: PeerId, report: PeerReportReason) -> anyhow::Result<()>;
}
pub trait ConsensusPort { fn check_sealed_header(&self, header: &SealedBlockHeader) -> anyhow::Result<bool>; }
pub trait BlockImporterPort { async fn execute_and_commit(&self, block: SealedBlock) -> anyhow::Result<()>; }

pub struct State { pub commits: Cell<u32>, pub last: Cell<Option<u32>> }
impl State { pub fn commit(&mut self, h: u32) { self.commits.set(self.commits.get() + 1); self.last.set(Some(h)); } }
pub struct SharedMutex<T>(pub RefCell<T>);
impl<T> SharedMutex<T> { pub fn apply<R>(&self, f: impl FnOnce(&mut T) -> R) -> R { f(&mut *self.0.borrow_mut()) } }

//@ extract crates/services/sync/src/import.rs struct Batch
//@ end
//@ extract crates/services/sync/src/import.rs impl Batch
//@ end
type SealedHeaderBatch = Batch<SealedBlockHeader>;
type SealedBlockBatch = Batch<SealedBlock>;
//@ extract crates/services/sync/src/import.rs check_sealed_header
//@ end
//@ extract crates/services/sync/src/import.rs get_sealed_block_headers
//@ end
//@ extract crates/services/sync/src/import.rs get_transactions
//@ end
//@ extract crates/services/sync/src/import.rs get_headers_batch
//@ end
//@ extract crates/services/sync/src/import.rs report_peer
//@ end
//@ extract crates/services/sync/src/import.rs get_blocks
//@ end
//@ extract crates/services/sync/src/import.rs execute_and_commit
//@ end

// =====================================================================================================================
#[cfg(kani)]
pub struct MockP2p {
    pub headers_answer: u8,                      // 0 = Err, 1 = Ok(None), 2 = Ok(Some(headers))
    pub headers: RefCell<Option<Vec<SealedBlockHeader>>>,
    pub txs_answer: u8,                          // 0 = Err, 1 = Ok(None), 2 = Ok(Some(txs))
    pub txs: RefCell<Option<Vec<Transactions>>>,
    pub serving_peer: PeerId,
    pub asked_txs_from: RefCell<Option<(Option<PeerId>, Range<u32>)>>,
    pub asked_headers: RefCell<Option<Range<u32>>>,
    pub reports: RefCell<[Option<(PeerId, PeerReportReason)>; 2]>,
    pub n_reports: Cell<usize>,
}
// single-threaded harness: the recording cells are never shared between threads
#[cfg(kani)] unsafe impl Sync for MockP2p {}
#[cfg(kani)] unsafe impl Send for MockP2p {}
#[cfg(kani)] unsafe impl Sync for MockExecutor {}
#[cfg(kani)] unsafe impl Send for MockExecutor {}
#[cfg(kani)]
impl PeerToPeerPort for MockP2p {
    async fn get_sealed_block_headers(&self, r: Range<u32>) -> anyhow::Result<SourcePeer<Option<Vec<SealedBlockHeader>>>> {
        *self.asked_headers.borrow_mut() = Some(r);
        match self.headers_answer { 0 => Err(anyhow::anyhow!("p2p")), 1 => Ok(SourcePeer { peer_id: self.serving_peer.clone(), data: None }),
            _ => Ok(SourcePeer { peer_id: self.serving_peer.clone(), data: Some(self.headers.borrow_mut().take().unwrap_or_default()) }) }
    }
    async fn get_transactions(&self, r: Range<u32>) -> anyhow::Result<SourcePeer<Option<Vec<Transactions>>>> {
        *self.asked_txs_from.borrow_mut() = Some((None, r));
        match self.txs_answer { 0 => Err(anyhow::anyhow!("p2p")), 1 => Ok(SourcePeer { peer_id: self.serving_peer.clone(), data: None }),
            _ => Ok(SourcePeer { peer_id: self.serving_peer.clone(), data: Some(self.txs.borrow_mut().take().unwrap_or_default()) }) }
    }
    async fn get_transactions_from_peer(&self, r: SourcePeer<Range<u32>>) -> anyhow::Result<Option<Vec<Transactions>>> {
        *self.asked_txs_from.borrow_mut() = Some((Some(r.peer_id.clone()), r.data.clone()));
        match self.txs_answer { 0 => Err(anyhow::anyhow!("p2p")), 1 => Ok(None), _ => Ok(Some(self.txs.borrow_mut().take().unwrap_or_default())) }
    }
    fn report_peer(&self, peer: PeerId, report: PeerReportReason) -> anyhow::Result<()> {
        let k = self.n_reports.get();
        if k < 2 { self.reports.borrow_mut()[k] = Some((peer, report)); }
        self.n_reports.set(k + 1);
        if nondet() { Ok(()) } else { Err(anyhow::anyhow!("report failed")) }
    }
}
#[cfg(kani)] fn nondet() -> bool { kani::any() }
// format! of log texts is evaluated eagerly on the report path; its result only feeds trace_err (a no-op)
#[cfg(kani)] fn fmt_stub(_a: core::fmt::Arguments<'_>) -> String { String::new() }
#[cfg(kani)]
fn mock_p2p(headers: Option<Vec<SealedBlockHeader>>, txs: Option<Vec<Transactions>>, ha: u8, ta: u8) -> Arc<MockP2p> {
    Arc::new(MockP2p { headers_answer: ha, headers: RefCell::new(headers), txs_answer: ta, txs: RefCell::new(txs), serving_peer: PeerId(kani::any()),
        asked_txs_from: RefCell::new(None), asked_headers: RefCell::new(None), reports: RefCell::new([None, None]), n_reports: Cell::new(0) })
}
#[cfg(kani)]
pub struct MockConsensus { pub answer: u8 } // 0 = Err, 1 = Ok(false), 2 = Ok(true)
#[cfg(kani)]
impl ConsensusPort for MockConsensus {
    fn check_sealed_header(&self, _h: &SealedBlockHeader) -> anyhow::Result<bool> { match self.answer { 0 => Err(anyhow::anyhow!("c")), 1 => Ok(false), _ => Ok(true) } }
}
#[cfg(kani)]
pub struct MockExecutor { pub fails: bool, pub got: Cell<Option<u32>> }
#[cfg(kani)]
impl BlockImporterPort for MockExecutor {
    async fn execute_and_commit(&self, block: SealedBlock) -> anyhow::Result<()> { self.got.set(Some(block.entity.header.height.0)); if self.fails { Err(anyhow::anyhow!("exec")) } else { Ok(()) } }
}
#[cfg(kani)]
fn hdr(h: u32, c: u64, s: u64) -> SealedBlockHeader { SealedBlockHeader { entity: BlockHeader { height: BlockHeight(h), tx_commitment: c }, consensus: Consensus(s) } }

// ---- a header that fails the consensus check is never passed on, and its sender is reported
//@ harness kind=proof tier=quick timeout=600 extra="-Z async-lib --default-unwind 4"
#[cfg(kani)]
#[kani::proof]
#[kani::stub(alloc::fmt::format, fmt_stub)]
fn c26_check_sealed_header() {
    let p2p = mock_p2p(None, None, 0, 0);
    let cons = Arc::new(MockConsensus { answer: kani::any() });
    kani::assume(cons.answer <= 2);
    let peer_some: bool = kani::any();
    let peer = PeerId(kani::any());
    let valid = check_sealed_header(&hdr(kani::any(), kani::any(), kani::any()), if peer_some { Some(peer.clone()) } else { None }, &p2p, &cons);
    kani::cover!(!valid && peer_some, "[C26.sync-import.header.cover-bad-header-reported]");
    kani::assert(valid == (cons.answer == 2), "[C26.sync-import.header.passes-iff-consensus-port-says-valid]");
    kani::assert(p2p.n_reports.get() == (if !valid && peer_some { 1 } else { 0 }), "[C26.sync-import.header.sender-reported-exactly-for-a-rejected-header]");
    if p2p.n_reports.get() == 1 { kani::assert(p2p.reports.borrow()[0] == Some((peer, PeerReportReason::BadBlockHeader)), "[C26.sync-import.header.reported-as-bad-block-header]"); }
}

// ---- the headers passed on are exactly the longest prefix with consecutive heights from the start of the range
#[cfg(kani)]
fn headers_case(len: u32, n: usize, answer: u8) {
    let start: u32 = kani::any();
    kani::assume(start <= u32::MAX - 3);
    let hs: [u32; 3] = kani::any();
    let mut v = Vec::new();
    let mut i = 0;
    while i < 3 { if i < n { v.push(hdr(hs[i], i as u64, 0)); } i += 1; }
    let p2p = mock_p2p(Some(v), None, answer, 0);
    let range = start..start + len;
    let b = kani::block_on(get_headers_batch(range.clone(), &p2p));
    // spec: longest prefix of the returned headers with height_i == start + i, within the range
    let got = if p2p.headers_answer == 2 { n } else { 0 };
    let mut k = 0usize;
    let mut j = 0usize;
    let mut open = true;
    while j < 3 { if open && j < got && (j as u32) < len && hs[j] == start + j as u32 { k += 1; } else { open = false; } j += 1; }
    if len == 3 && n == 3 { kani::cover!(k == 2 && got == 3, "[C26.sync-import.headers.cover-gap-cuts-the-batch]"); }
    kani::assert(b.range == range, "[C26.sync-import.headers.batch-keeps-the-requested-range]");
    kani::assert(b.results.len() == k, "[C26.sync-import.headers.keeps-exactly-the-consecutive-prefix]");
    let mut ok = true;
    let mut q = 0;
    while q < 3 { if q < b.results.len() && !(b.results[q].entity.height.0 == start + q as u32 && b.results[q].entity.tx_commitment == q as u64) { ok = false; } q += 1; }
    kani::assert(ok, "[C26.sync-import.headers.kept-headers-are-the-received-ones-in-order-at-consecutive-heights]");
    if p2p.headers_answer == 0 {
        kani::assert(b.peer.is_none() && p2p.n_reports.get() == 0, "[C26.sync-import.headers.p2p-failure-yields-empty-batch-without-report]");
    } else {
        kani::assert(b.peer == Some(p2p.serving_peer.clone()), "[C26.sync-import.headers.batch-remembers-the-serving-peer]");
        kani::assert(p2p.n_reports.get() == (if k != len as usize { 1 } else { 0 }), "[C26.sync-import.headers.peer-reported-exactly-when-headers-are-missing]");
        if p2p.n_reports.get() == 1 { kani::assert(p2p.reports.borrow()[0] == Some((p2p.serving_peer.clone(), PeerReportReason::MissingBlockHeaders)), "[C26.sync-import.headers.reported-as-missing-headers]"); }
    }
    kani::assert(*p2p.asked_headers.borrow() == Some(range), "[C26.sync-import.headers.asks-for-exactly-the-range]");
}


//@ harness kind=bounded tier=quick bound="requested range <= 3 heights, <= 3 headers returned (cases range/returned/p2p answer)" heavy=1 timeout=1200 extra="-Z async-lib --default-unwind 5"
#[cfg(kani)]
#[kani::proof]
#[kani::stub(alloc::fmt::format, fmt_stub)]
fn c26_get_headers_batch_3_3_2() { headers_case(3, 3, 2); }
//@ harness kind=bounded tier=thorough bound="requested range <= 3 heights, <= 3 headers returned (cases range/returned/p2p answer)" heavy=1 timeout=1200 extra="-Z async-lib --default-unwind 5"
#[cfg(kani)]
#[kani::proof]
#[kani::stub(alloc::fmt::format, fmt_stub)]
fn c26_get_headers_batch_3_2_2() { headers_case(3, 2, 2); }
//@ harness kind=bounded tier=quick bound="requested range <= 3 heights, <= 3 headers returned (cases range/returned/p2p answer)" heavy=1 timeout=1200 extra="-Z async-lib --default-unwind 5"
#[cfg(kani)]
#[kani::proof]
#[kani::stub(alloc::fmt::format, fmt_stub)]
fn c26_get_headers_batch_2_3_2() { headers_case(2, 3, 2); }
//@ harness kind=bounded tier=thorough bound="requested range <= 3 heights, <= 3 headers returned (cases range/returned/p2p answer)" heavy=1 timeout=1200 extra="-Z async-lib --default-unwind 5"
#[cfg(kani)]
#[kani::proof]
#[kani::stub(alloc::fmt::format, fmt_stub)]
fn c26_get_headers_batch_1_1_2() { headers_case(1, 1, 2); }
//@ harness kind=bounded tier=thorough bound="requested range <= 3 heights, <= 3 headers returned (cases range/returned/p2p answer)" heavy=1 timeout=1200 extra="-Z async-lib --default-unwind 5"
#[cfg(kani)]
#[kani::proof]
#[kani::stub(alloc::fmt::format, fmt_stub)]
fn c26_get_headers_batch_0_1_2() { headers_case(0, 1, 2); }
//@ harness kind=bounded tier=quick bound="requested range <= 3 heights, <= 3 headers returned (cases range/returned/p2p answer)" heavy=1 timeout=1200 extra="-Z async-lib --default-unwind 5"
#[cfg(kani)]
#[kani::proof]
#[kani::stub(alloc::fmt::format, fmt_stub)]
fn c26_get_headers_batch_2_0_0() { headers_case(2, 0, 0); }
//@ harness kind=bounded tier=thorough bound="requested range <= 3 heights, <= 3 headers returned (cases range/returned/p2p answer)" heavy=1 timeout=1200 extra="-Z async-lib --default-unwind 5"
#[cfg(kani)]
#[kani::proof]
#[kani::stub(alloc::fmt::format, fmt_stub)]
fn c26_get_headers_batch_2_0_1() { headers_case(2, 0, 1); }

// ---- blocks are built only from a header and the transactions at the same position that match it; the batch is cut
// at the first mismatch and the peer is reported
#[cfg(kani)]
fn blocks_case(nh: usize, nt: usize, answer: u8) {
    let start: u32 = kani::any();
    kani::assume(start <= u32::MAX - 2);
    let c: [u64; 2] = kani::any(); let t: [u64; 2] = kani::any(); let s: [u64; 2] = kani::any();
    let mut hv = Vec::new(); let mut tv = Vec::new();
    let mut i = 0;
    while i < 2 { if i < nh { hv.push(hdr(start + i as u32, c[i], s[i])); } if i < nt { tv.push(Transactions(t[i])); } i += 1; }
    let p2p = mock_p2p(None, Some(tv), 0, answer);
    let peer_some: bool = kani::any();
    let hpeer = PeerId(kani::any());
    let range = start..start + 2;
    let batch = Batch::new(if peer_some { Some(hpeer.clone()) } else { None }, range.clone(), hv);
    let b = kani::block_on(get_blocks(&p2p, batch));
    let have_txs = p2p.txs_answer == 2;
    let m = if nh < nt { nh } else { nt };
    // spec: blocks for positions 0..k where k = first position whose transactions do not match the header (or m)
    let k = if !have_txs { 0 } else if m >= 1 && c[0] != t[0] { 0 } else if m >= 2 && c[1] != t[1] { 1 } else { m };
    if m == 2 { kani::cover!(have_txs && k == 1, "[C26.sync-import.blocks.cover-second-block-invalid]"); }
    kani::assert(b.range == range, "[C26.sync-import.blocks.batch-keeps-the-requested-range]");
    kani::assert(b.results.len() == k, "[C26.sync-import.blocks.cut-at-the-first-transactions-header-mismatch]");
    let mut ok = true;
    let mut q = 0;
    while q < 2 { if q < b.results.len() { let bl = &b.results[q]; if !(bl.entity.header.height.0 == start + q as u32 && bl.entity.header.tx_commitment == c[q] && bl.entity.txs == t[q] && c[q] == t[q] && bl.consensus == Consensus(s[q])) { ok = false; } } q += 1; }
    kani::assert(ok, "[C26.sync-import.blocks.each-block-is-header-i-with-transactions-i-and-its-own-seal]");
    // transactions are requested from the peer that served the headers, for the batch's range
    let asked = p2p.asked_txs_from.borrow().clone();
    kani::assert(asked == Some((if peer_some { Some(hpeer.clone()) } else { None }, range.clone())), "[C26.sync-import.blocks.transactions-requested-from-the-header-peer-for-the-same-range]");
    let tx_peer = if peer_some { hpeer.clone() } else { p2p.serving_peer.clone() };
    if have_txs {
        let invalid = k < m;
        kani::assert(p2p.n_reports.get() == (if invalid { 1 } else { 0 }), "[C26.sync-import.blocks.peer-reported-exactly-for-invalid-transactions]");
        if invalid { kani::assert(p2p.reports.borrow()[0] == Some((tx_peer, PeerReportReason::InvalidTransactions)), "[C26.sync-import.blocks.reported-as-invalid-transactions]"); }
    } else if p2p.txs_answer == 1 {
        kani::assert(p2p.n_reports.get() == 1 && p2p.reports.borrow()[0] == Some((tx_peer, PeerReportReason::MissingTransactions)), "[C26.sync-import.blocks.missing-transactions-reported]");
    }
}


//@ harness kind=bounded tier=quick bound="<= 2 headers, <= 2 transaction lists (cases headers/lists/p2p answer)" heavy=1 timeout=1200 extra="-Z async-lib --default-unwind 4"
#[cfg(kani)]
#[kani::proof]
#[kani::stub(alloc::fmt::format, fmt_stub)]
fn c26_get_blocks_2_2_2() { blocks_case(2, 2, 2); }
//@ harness kind=bounded tier=thorough bound="<= 2 headers, <= 2 transaction lists (cases headers/lists/p2p answer)" heavy=1 timeout=1200 extra="-Z async-lib --default-unwind 4"
#[cfg(kani)]
#[kani::proof]
#[kani::stub(alloc::fmt::format, fmt_stub)]
fn c26_get_blocks_2_1_2() { blocks_case(2, 1, 2); }
//@ harness kind=bounded tier=thorough bound="<= 2 headers, <= 2 transaction lists (cases headers/lists/p2p answer)" heavy=1 timeout=1200 extra="-Z async-lib --default-unwind 4"
#[cfg(kani)]
#[kani::proof]
#[kani::stub(alloc::fmt::format, fmt_stub)]
fn c26_get_blocks_1_2_2() { blocks_case(1, 2, 2); }
//@ harness kind=bounded tier=thorough bound="<= 2 headers, <= 2 transaction lists (cases headers/lists/p2p answer)" heavy=1 timeout=1200 extra="-Z async-lib --default-unwind 4"
#[cfg(kani)]
#[kani::proof]
#[kani::stub(alloc::fmt::format, fmt_stub)]
fn c26_get_blocks_0_2_2() { blocks_case(0, 2, 2); }
//@ harness kind=bounded tier=thorough bound="<= 2 headers, <= 2 transaction lists (cases headers/lists/p2p answer)" heavy=1 timeout=1200 extra="-Z async-lib --default-unwind 4"
#[cfg(kani)]
#[kani::proof]
#[kani::stub(alloc::fmt::format, fmt_stub)]
fn c26_get_blocks_1_1_0() { blocks_case(1, 1, 0); }
//@ harness kind=bounded tier=quick bound="<= 2 headers, <= 2 transaction lists (cases headers/lists/p2p answer)" heavy=1 timeout=1200 extra="-Z async-lib --default-unwind 4"
#[cfg(kani)]
#[kani::proof]
#[kani::stub(alloc::fmt::format, fmt_stub)]
fn c26_get_blocks_1_1_1() { blocks_case(1, 1, 1); }

// ---- a block is marked committed in the sync state exactly when the importer executed and committed it
//@ harness kind=proof tier=quick timeout=600 extra="-Z async-lib --default-unwind 3"
#[cfg(kani)]
#[kani::proof]
#[kani::stub(alloc::fmt::format, fmt_stub)]
fn c26_execute_and_commit() {
    let h: u32 = kani::any();
    let ex = MockExecutor { fails: kani::any(), got: Cell::new(None) };
    let state = SharedMutex(RefCell::new(State { commits: Cell::new(0), last: Cell::new(None) }));
    let block = SealedBlock { entity: Block { header: BlockHeader { height: BlockHeight(h), tx_commitment: 0 }, txs: 0 }, consensus: Consensus(0) };
    let r = kani::block_on(execute_and_commit(&ex, &state, block));
    kani::cover!(r.is_err(), "[C26.sync-import.commit.cover-execution-failure]");
    kani::assert(r.is_ok() == !ex.fails && ex.got.get() == Some(h), "[C26.sync-import.commit.result-is-the-importers-result-for-this-block]");
    let st = state.0.borrow();
    kani::assert(st.commits.get() == (if ex.fails { 0 } else { 1 }) && (ex.fails || st.last.get() == Some(h)), "[C26.sync-import.commit.height-marked-committed-iff-execution-succeeded]");
}

// Vacuity canary: "every header passes" must FAIL.
//@ harness kind=canary tier=quick expect=C26.sync-import.canary.every-header-passes timeout=600 extra="-Z async-lib --default-unwind 4"
#[cfg(kani)]
#[kani::proof]
#[kani::stub(alloc::fmt::format, fmt_stub)]
fn c26_canary() {
    let p2p = mock_p2p(None, None, 0, 0);
    let cons = Arc::new(MockConsensus { answer: kani::any() });
    kani::assume(cons.answer <= 2);
    let valid = check_sealed_header(&hdr(0, 0, 0), None, &p2p, &cons);
    kani::assert(valid, "[C26.sync-import.canary.every-header-passes]");
}
