// Scratch crate generated on every run. Pasted from /repo's current working tree (header and body byte for byte), from
// crates/storage/src/blueprint/sparse.rs:
//   trait PrimaryKey, Sparse::insert_into_tree, Sparse::remove_from_tree, <Sparse as BlueprintMutate>::{put, replace, take, delete}
//   and from crates/storage/src/tables.rs: enum SparseMerkleMetadata + impls, struct SparseMerkleMetadataV1
// Stand-ins (trusted, listed in unit.toml): fuel-merkle's sparse MerkleTree (load by root from the Nodes table, insert,
// delete, root, into_storage, empty_root) is its CONTRACT: the root is an order-independent uninterpreted function of the SET
// of (key, value) leaves, and a tree can be loaded only by the root it currently has; the key-value column holds up to two
// entries of one probed primary key; the metadata table is exact for that primary key and one other.
#![allow(unused)]
extern crate alloc;
use alloc::borrow::{Cow, ToOwned};
use core::marker::PhantomData;

pub type StorageResult<T> = Result<T, StorageError>;
#[derive(Debug)] pub enum StorageError { Codec(CodecError), Other(anyhow::Error), Fail }
impl From<anyhow::Error> for StorageError { fn from(e: anyhow::Error) -> Self { StorageError::Other(e) } }
#[derive(Debug)] pub struct CodecError;
pub type MerkleRoot = [u8; 4];
#[derive(Clone, Copy, Debug, PartialEq, Eq)] pub struct Value(pub [u8; 1]);
impl AsRef<[u8]> for Value { fn as_ref(&self) -> &[u8] { &self.0 } }
#[derive(Clone, Copy, Debug, PartialEq, Eq)] pub enum Col { Data, Nodes }
#[allow(non_upper_case_globals)] pub const Column: Col = Col::Data;
pub trait StorageColumn: Copy { fn name(&self) -> &'static str; }
impl StorageColumn for Col { fn name(&self) -> &'static str { "column" } }
/// which keys the stores of this crate are exact for: (primary key, sub-key 1, sub-key 2) - read by the in-memory tree contract
pub static mut PROBE: (u8, u8, u8) = (0, 0, 0);
pub const EMPTY_ROOT: MerkleRoot = [0; 4];
/// the root as an INJECTIVE encoding of the leaf set over the two probed sub-keys (order-independent by construction;
/// the empty set encodes to the empty root)
pub fn set_root(a: Option<u8>, b: Option<u8>) -> u32 { (a.is_some() as u32) | ((b.is_some() as u32) << 1) | ((a.unwrap_or(0) as u32) << 8) | ((b.unwrap_or(0) as u32) << 16) }

pub mod sparse {
    /// a tree node as the Nodes table holds it; for the contract only leaves matter: (primary key, sub-key) -> value tag
    #[derive(Clone, Copy)] pub struct Primitive(pub u8);
    pub mod in_memory {
        use crate::*;
        pub struct MerkleTree;
        impl MerkleTree {
            pub fn new() -> Self { MerkleTree }
            pub fn root(&self) -> MerkleRoot { EMPTY_ROOT }
            /// CONTRACT: the root of the tree holding exactly the given leaves (a later entry of a repeated key wins), and the
            /// nodes that, written to the Nodes table, make up that tree
            pub fn nodes_from_set<'a, I: Iterator<Item = (MerkleTreeKey, &'a Bytes)>>(set: I) -> (MerkleRoot, List<(MerkleRoot, sparse::Primitive)>) {
                let (p, s1, s2) = unsafe { PROBE };
                let (mut a, mut b) = (None, None);
                let mut nodes = List::new();
                for (k, v) in set { if k.0[0] == p && k.0[1] == s1 { a = Some(v.0[0]); } else if k.0[0] == p && k.0[1] == s2 { b = Some(v.0[0]); } nodes.push(([k.0[0], k.0[1], 0, 0], sparse::Primitive(v.0[0]))); }
                (set_root(a, b).to_be_bytes(), nodes)
            }
        }
    }
}
use sparse::in_memory;
/// Vec stand-in with a fixed capacity of 2
pub struct List<T> { pub items: [Option<T>; 2], pub n: usize }
impl<T> List<T> {
    pub fn new() -> Self { List { items: [None, None], n: 0 } }
    pub fn push(&mut self, t: T) { if self.n < 2 { self.items[self.n] = Some(t); } self.n += 1; }
    pub fn iter(&self) -> core::iter::Flatten<core::slice::Iter<'_, Option<T>>> { self.items.iter().flatten() }
}
impl<T> IntoIterator for List<T> { type Item = T; type IntoIter = core::iter::Flatten<core::array::IntoIter<Option<T>, 2>>; fn into_iter(self) -> Self::IntoIter { self.items.into_iter().flatten() } }
/// itertools::Itertools: the adapters a change of this code could plausibly reach for
pub trait Itertools: Iterator + Sized {
    fn collect_vec(self) -> List<Self::Item> { let mut l = List::new(); for t in self { l.push(t); } l }
    fn dedup_by<F: FnMut(&Self::Item, &Self::Item) -> bool>(self, same: F) -> DedupBy<Self, F> { DedupBy { it: self, last: None, same } }
}
impl<I: Iterator> Itertools for I {}
pub struct DedupBy<I: Iterator, F> { it: I, last: Option<I::Item>, same: F }
impl<I: Iterator, F: FnMut(&I::Item, &I::Item) -> bool> Iterator for DedupBy<I, F> {
    type Item = I::Item;
    fn next(&mut self) -> Option<I::Item> {
        if self.last.is_none() { self.last = self.it.next(); }
        let cur = self.last.take()?;
        loop { match self.it.next() { Some(n) => { if (self.same)(&cur, &n) { continue } self.last = Some(n); break } None => break } }
        Some(cur)
    }
}
pub mod merkle_tables {
    use super::*;
    #[derive(Debug, Clone, PartialEq, Eq)]
//@ extract crates/storage/src/tables.rs enum SparseMerkleMetadata
//@ end
//@ extract crates/storage/src/tables.rs impl Default for SparseMerkleMetadata
//@ end
//@ extract crates/storage/src/tables.rs impl SparseMerkleMetadata
//@ end
    #[derive(Debug, Clone, PartialEq, Eq)]
//@ extract crates/storage/src/tables.rs struct SparseMerkleMetadataV1
//@ end
//@ extract crates/storage/src/tables.rs impl Default for SparseMerkleMetadataV1
//@ end
}
use merkle_tables::{SparseMerkleMetadata, SparseMerkleMetadataV1};

pub trait Mappable { type Key: ?Sized + ToOwned<Owned = Self::OwnedKey>; type OwnedKey: Clone + PartialEq; type Value: ?Sized; type OwnedValue: Clone; }
// (stands for Vec<u8>: comparable, ordered, hashable)
#[derive(Clone, Copy, Debug, PartialEq, Eq, PartialOrd, Ord, Hash)] pub struct Bytes(pub [u8; 2]);
impl Bytes { pub fn into_owned(self) -> Bytes { self } }
impl core::ops::Deref for Bytes { type Target = [u8]; fn deref(&self) -> &[u8] { &self.0 } }
impl From<Bytes> for Value { fn from(b: Bytes) -> Value { Value([b.0[0]]) } }
impl AsRef<[u8]> for Bytes { fn as_ref(&self) -> &[u8] { &self.0 } }
pub struct Enc(pub [u8; 2]);
impl Enc { pub fn as_bytes(&self) -> Bytes { Bytes(self.0) } }
pub trait Encode<T: ?Sized> { fn encode(t: &T) -> Enc; fn encode_as_value(t: &T) -> Value; }
pub trait Decode<T> { fn decode_from_value(v: Value) -> Result<T, CodecError>; }
pub struct Codec;
impl Encode<[u8; 2]> for Codec { fn encode(t: &[u8; 2]) -> Enc { Enc(*t) } fn encode_as_value(t: &[u8; 2]) -> Value { Value([t[0]]) } }
impl Decode<[u8; 2]> for Codec { fn decode_from_value(v: Value) -> Result<[u8; 2], CodecError> { Ok([v.0[0], 0]) } }
impl Encode<u8> for Codec { fn encode(t: &u8) -> Enc { Enc([*t, 0]) } fn encode_as_value(t: &u8) -> Value { Value([*t]) } }
impl Decode<u8> for Codec { fn decode_from_value(v: Value) -> Result<u8, CodecError> { Ok(v.0[0]) } }
impl Encode<MerkleRoot> for Codec { fn encode(t: &MerkleRoot) -> Enc { Enc([t[0], t[1]]) } fn encode_as_value(t: &MerkleRoot) -> Value { Value([t[0]]) } }
impl Decode<MerkleRoot> for Codec { fn decode_from_value(v: Value) -> Result<MerkleRoot, CodecError> { Ok([v.0[0], 0, 0, 0]) } }
impl Encode<sparse::Primitive> for Codec { fn encode(t: &sparse::Primitive) -> Enc { Enc([t.0, 0]) } fn encode_as_value(t: &sparse::Primitive) -> Value { Value([t.0]) } }
impl Decode<sparse::Primitive> for Codec { fn decode_from_value(v: Value) -> Result<sparse::Primitive, CodecError> { Ok(sparse::Primitive(v.0[0])) } }

//@ extract crates/storage/src/blueprint/sparse.rs trait PrimaryKey
//@ end

/// storage under the blueprint, seen through primary key P (keys [P, s1] and [P, s2]) and one other primary key Q
pub struct Store {
    pub p: u8, pub s1: u8, pub v1: Option<Value>, pub s2: u8, pub v2: Option<Value>,
    pub meta_p: Option<SparseMerkleMetadata>, pub q: u8, pub meta_q: Option<SparseMerkleMetadata>,
    /// the sparse tree of P as the Nodes table holds it: its leaf set (by sub-key) - the kv column and the tree are updated by different calls
    pub t1: Option<u8>, pub t2: Option<u8>,
    pub fails: bool, pub foreign_writes: u32,
}
impl Store {
    pub fn tree_root(&self) -> MerkleRoot { set_root(self.t1, self.t2).to_be_bytes() }
    pub fn kv_root(&self) -> MerkleRoot { set_root(self.v1.map(|v| v.0[0]), self.v2.map(|v| v.0[0])).to_be_bytes() }
    fn slot(&mut self, key: &[u8]) -> Option<&mut Option<Value>> { if key.len() != 2 || key[0] != self.p { self.foreign_writes += 1; None } else if key[1] == self.s1 { Some(&mut self.v1) } else if key[1] == self.s2 { Some(&mut self.v2) } else { self.foreign_writes += 1; None } }
}
pub trait KeyValueInspect { type Column: Copy; }
pub trait KeyValueMutate: KeyValueInspect {
    fn put(&mut self, key: &[u8], column: Self::Column, value: Value) -> StorageResult<()>;
    fn replace(&mut self, key: &[u8], column: Self::Column, value: Value) -> StorageResult<Option<Value>>;
    fn take(&mut self, key: &[u8], column: Self::Column) -> StorageResult<Option<Value>>;
    fn delete(&mut self, key: &[u8], column: Self::Column) -> StorageResult<()>;
}
impl KeyValueInspect for Store { type Column = Col; }
impl KeyValueMutate for Store {
    fn put(&mut self, key: &[u8], _c: Col, value: Value) -> StorageResult<()> { if self.fails { return Err(StorageError::Fail) } if let Some(s) = self.slot(key) { *s = Some(value); } Ok(()) }
    fn replace(&mut self, key: &[u8], _c: Col, value: Value) -> StorageResult<Option<Value>> { if self.fails { return Err(StorageError::Fail) } Ok(match self.slot(key) { Some(s) => s.replace(value), None => None }) }
    fn take(&mut self, key: &[u8], _c: Col) -> StorageResult<Option<Value>> { if self.fails { return Err(StorageError::Fail) } Ok(match self.slot(key) { Some(s) => s.take(), None => None }) }
    fn delete(&mut self, key: &[u8], _c: Col) -> StorageResult<()> { self.take(key, Column).map(|_| ()) }
}
pub enum WriteOperation { Insert(Value), Remove }
pub trait BatchOperations: KeyValueMutate { fn batch_write<I>(&mut self, column: Self::Column, entries: I) -> StorageResult<()> where I: Iterator<Item = (Bytes, WriteOperation)>; }
impl BatchOperations for Store {
    // the data column through the probed slots; the Nodes column as the leaf set of P's tree
    fn batch_write<I>(&mut self, column: Col, entries: I) -> StorageResult<()> where I: Iterator<Item = (Bytes, WriteOperation)> {
        if self.fails { return Err(StorageError::Fail) }
        for (k, op) in entries {
            let v = match op { WriteOperation::Insert(v) => Some(v), WriteOperation::Remove => None };
            match column {
                Col::Data => { if let Some(s) = self.slot(&k.0) { *s = v; } }
                Col::Nodes => { if k.0[0] != self.p { self.foreign_writes += 1; } else if k.0[1] == self.s1 { self.t1 = v.map(|v| v.0[0]); } else if k.0[1] == self.s2 { self.t2 = v.map(|v| v.0[0]); } else { self.foreign_writes += 1; } }
            }
        }
        Ok(())
    }
}
pub trait TableWithBlueprint: Mappable + Sized { type Blueprint; type Column: StorageColumn; fn column() -> Self::Column; }
pub trait BlueprintCodec<M: Mappable> { type KeyCodec: Encode<M::Key> + Decode<M::OwnedKey>; type ValueCodec: Encode<M::Value> + Decode<M::OwnedValue>; }
pub trait BlueprintInspect<M: Mappable, S: KeyValueInspect>: BlueprintCodec<M> {}
pub struct Plain;
impl BlueprintCodec<NodesTable> for Plain { type KeyCodec = Codec; type ValueCodec = Codec; }
impl<S: KeyValueInspect> BlueprintInspect<NodesTable, S> for Plain {}
impl TableWithBlueprint for NodesTable { type Blueprint = Plain; type Column = Col; fn column() -> Col { Col::Nodes } }
impl TableWithBlueprint for DataTable { type Blueprint = Bp; type Column = Col; fn column() -> Col { Col::Data } }
pub struct MetaTable; pub struct NodesTable; pub struct DataTable;
impl Mappable for MetaTable { type Key = u8; type OwnedKey = u8; type Value = SparseMerkleMetadata; type OwnedValue = SparseMerkleMetadata; }
impl Mappable for NodesTable { type Key = MerkleRoot; type OwnedKey = MerkleRoot; type Value = sparse::Primitive; type OwnedValue = sparse::Primitive; }
impl Mappable for DataTable { type Key = [u8; 2]; type OwnedKey = [u8; 2]; type Value = u8; type OwnedValue = u8; }
pub trait StorageMutate<T: Mappable> {
    type Error;
    fn get_(&self, k: &T::Key) -> StorageResult<Option<Cow<'_, T::OwnedValue>>>;
    fn insert_(&mut self, k: &T::Key, v: &T::Value) -> StorageResult<()>;
    fn remove_(&mut self, k: &T::Key) -> StorageResult<()>;
    fn raw(&mut self) -> &mut Store;
}
impl StorageMutate<MetaTable> for Store {
    type Error = StorageError;
    fn get_(&self, k: &u8) -> StorageResult<Option<Cow<'_, SparseMerkleMetadata>>> { Ok(if *k == self.p { self.meta_p.clone() } else if *k == self.q { self.meta_q.clone() } else { None }.map(Cow::Owned)) }
    fn insert_(&mut self, k: &u8, v: &SparseMerkleMetadata) -> StorageResult<()> { if *k == self.p { self.meta_p = Some(v.clone()); } else if *k == self.q { self.meta_q = Some(v.clone()); } else { self.foreign_writes += 1; } Ok(()) }
    fn remove_(&mut self, k: &u8) -> StorageResult<()> { if *k == self.p { self.meta_p = None; } else if *k == self.q { self.meta_q = None; } else { self.foreign_writes += 1; } Ok(()) }
    fn raw(&mut self) -> &mut Store { self }
}
impl StorageMutate<DataTable> for Store {
    type Error = StorageError;
    fn get_(&self, _k: &[u8; 2]) -> StorageResult<Option<Cow<'_, u8>>> { Ok(None) }
    fn insert_(&mut self, _k: &[u8; 2], _v: &u8) -> StorageResult<()> { Ok(()) }
    fn remove_(&mut self, _k: &[u8; 2]) -> StorageResult<()> { Ok(()) }
    fn raw(&mut self) -> &mut Store { self }
}
impl StorageMutate<NodesTable> for Store {
    type Error = StorageError;
    fn get_(&self, _k: &MerkleRoot) -> StorageResult<Option<Cow<'_, sparse::Primitive>>> { Ok(None) }
    fn insert_(&mut self, _k: &MerkleRoot, _v: &sparse::Primitive) -> StorageResult<()> { Ok(()) }
    fn remove_(&mut self, _k: &MerkleRoot) -> StorageResult<()> { Ok(()) }
    fn raw(&mut self) -> &mut Store { self }
}
pub struct TableMut<'a, S, T>(&'a mut S, PhantomData<T>);
pub trait StorageAsMut: Sized { fn storage<T: Mappable>(&mut self) -> TableMut<'_, Self, T> where Self: StorageMutate<T> { TableMut(self, PhantomData) } }
impl<S> StorageAsMut for S {}
impl<'a, S: StorageMutate<T>, T: Mappable> TableMut<'a, S, T> {
    pub fn get(self, k: &T::Key) -> StorageResult<Option<Cow<'a, T::OwnedValue>>> { let s: &'a S = self.0; s.get_(k) }
    pub fn insert(self, k: &T::Key, v: &T::Value) -> StorageResult<()> { self.0.insert_(k, v) }
    pub fn remove(self, k: &T::Key) -> StorageResult<()> { self.0.remove_(k) }
    pub fn contains_key(self, k: &T::Key) -> StorageResult<bool> { Ok(self.0.get_(k)?.is_some()) }
}
#[derive(Debug)] pub struct TreeError;
#[derive(Clone, Copy)] pub struct MerkleTreeKey(pub [u8; 2]);
impl MerkleTreeKey { pub fn new(b: &[u8]) -> Self { MerkleTreeKey([b[0], b[1]]) } }
/// CONTRACT of the sparse Merkle tree over the Nodes table
pub struct MerkleTree<N, S> { s: S, _n: PhantomData<N> }
impl<'a, N: Mappable, S: StorageMutate<N>> MerkleTree<N, &'a mut S> {
    pub fn load(s: &'a mut S, root: &MerkleRoot) -> Result<Self, TreeError> { if s.raw().tree_root() != *root { return Err(TreeError) } Ok(MerkleTree { s, _n: PhantomData }) }
    pub fn insert(&mut self, k: MerkleTreeKey, v: &[u8]) -> Result<(), TreeError> { let st = self.s.raw(); if k.0[0] != st.p { return Err(TreeError) } if k.0[1] == st.s1 { st.t1 = Some(v[0]); } else if k.0[1] == st.s2 { st.t2 = Some(v[0]); } else { return Err(TreeError) } Ok(()) }
    pub fn delete(&mut self, k: MerkleTreeKey) -> Result<(), TreeError> { let st = self.s.raw(); if k.0[0] == st.p { if k.0[1] == st.s1 { st.t1 = None; } else if k.0[1] == st.s2 { st.t2 = None; } } Ok(()) }
    pub fn root(&mut self) -> MerkleRoot { self.s.raw().tree_root() }
    pub fn into_storage(self) -> &'a mut S { self.s }
}
impl<N, S> MerkleTree<N, S> { pub fn empty_root() -> &'static MerkleRoot { &EMPTY_ROOT } }

pub struct Sparse<KeyCodec, ValueCodec, Metadata, Nodes, KeyConverter> { _marker: PhantomData<(KeyCodec, ValueCodec, Metadata, Nodes, KeyConverter)> }
impl<KeyCodec, ValueCodec, Metadata, Nodes, KeyConverter> Sparse<KeyCodec, ValueCodec, Metadata, Nodes, KeyConverter>
where Metadata: Mappable<Value = SparseMerkleMetadata, OwnedValue = SparseMerkleMetadata>,
      Nodes: Mappable<Key = MerkleRoot, Value = sparse::Primitive, OwnedValue = sparse::Primitive>,
{
//@ extract crates/storage/src/blueprint/sparse.rs Sparse::insert_into_tree
//@ end
//@ extract crates/storage/src/blueprint/sparse.rs Sparse::remove_from_tree
//@ end
}
pub trait BlueprintMutate<M: Mappable, S: KeyValueMutate> {
    fn put(storage: &mut S, key: &M::Key, column: S::Column, value: &M::Value) -> StorageResult<()>;
    fn replace(storage: &mut S, key: &M::Key, column: S::Column, value: &M::Value) -> StorageResult<Option<M::OwnedValue>>;
    fn take(storage: &mut S, key: &M::Key, column: S::Column) -> StorageResult<Option<M::OwnedValue>>;
    fn delete(storage: &mut S, key: &M::Key, column: S::Column) -> StorageResult<()>;
}
//@ extract crates/storage/src/blueprint/sparse.rs impl BlueprintMutate for Sparse
//@ end
//@ extract crates/storage/src/blueprint/sparse.rs impl BlueprintCodec for Sparse
//@ end
//@ extract crates/storage/src/blueprint/sparse.rs impl BlueprintInspect for Sparse
//@ end
//@ extract crates/storage/src/blueprint.rs trait SupportsBatching
//@ end
//@ extract crates/storage/src/blueprint/sparse.rs impl SupportsBatching for Sparse
//@ end

pub struct FirstByte;
impl PrimaryKey for FirstByte { type InputKey = [u8; 2]; type OutputKey = u8; fn primary_key(key: &[u8; 2]) -> Cow<'_, u8> { Cow::Owned(key[0]) } }
type Bp = Sparse<Codec, Codec, MetaTable, NodesTable, FirstByte>;

// =====================================================================================================================
#[cfg(kani)] fn fmt_stub(_a: core::fmt::Arguments<'_>) -> String { String::new() }
/// a consistent state: the tree of P holds exactly P's entries of the column, and the root recorded for P is that tree's
/// root (no record when there are no entries); Q has some unrelated record
#[cfg(kani)]
fn any_store() -> Store {
    let (p, q, s1, s2): (u8, u8, u8, u8) = (kani::any(), kani::any(), kani::any(), kani::any());
    kani::assume(p != q && s1 != s2);
    unsafe { PROBE = (p, s1, s2); }
    let v1 = if kani::any() { Some(Value([kani::any()])) } else { None };
    let v2 = if kani::any() { Some(Value([kani::any()])) } else { None };
    let mut s = Store { p, s1, v1, s2, v2, meta_p: None, q, meta_q: if kani::any() { Some(SparseMerkleMetadata::new(kani::any())) } else { None },
        t1: v1.map(|v| v.0[0]), t2: v2.map(|v| v.0[0]), fails: false, foreign_writes: 0 };
    if v1.is_some() || v2.is_some() { s.meta_p = Some(SparseMerkleMetadata::new(s.tree_root())); }
    s
}
#[cfg(kani)]
fn consistent(s: &Store) -> bool {
    // recorded root == root computed from scratch over P's current entries; absent exactly when there are none (or it records the empty root)
    let kv = s.kv_root();
    s.tree_root() == kv && match &s.meta_p { Some(m) => *m.root() == kv, None => kv == EMPTY_ROOT }
}

#[cfg(kani)]
fn ops_case(op: u8) {
    let mut s = any_store();
    let meta_q0 = s.meta_q.clone();
    let (p, s1) = (s.p, s.s1);
    let before = s.v1;
    let v: u8 = kani::any();
    let key = [p, s1];
    let (ok, ret): (bool, Option<Option<u8>>) = match op {
        0 => (<Bp as BlueprintMutate<DataTable, Store>>::put(&mut s, &key, Column, &v).is_ok(), None),
        1 => { let r = <Bp as BlueprintMutate<DataTable, Store>>::replace(&mut s, &key, Column, &v); (r.is_ok(), r.ok()) }
        2 => { let r = <Bp as BlueprintMutate<DataTable, Store>>::take(&mut s, &key, Column); (r.is_ok(), r.ok()) }
        _ => (<Bp as BlueprintMutate<DataTable, Store>>::delete(&mut s, &key, Column).is_ok(), None),
    };
    if op == 2 { kani::cover!(ok && before.is_some() && s.v2.is_none(), "[C14.sparse.ops.cover-last-entry-removed]"); }
    kani::assert(ok, "[C14.sparse.ops.single-operations-succeed-on-a-consistent-table]");
    kani::assert(s.v1 == (if op <= 1 { Some(Value([v])) } else { None }), "[C14.sparse.ops.entry-is-written-or-removed]");
    if let Some(r) = ret { kani::assert(r == before.map(|b| b.0[0]), "[C14.sparse.ops.replace-and-take-return-the-previous-value]"); }
    kani::assert(consistent(&s), "[C14.sparse.ops.recorded-root-equals-the-root-over-the-keys-current-entries]");
    kani::assert(s.meta_q == meta_q0 && s.foreign_writes == 0, "[C14.sparse.ops.other-primary-keys-roots-are-untouched]");
    if s.v1.is_none() && s.v2.is_none() { kani::assert(s.meta_p.is_none(), "[C14.sparse.ops.no-root-is-recorded-for-a-key-without-entries]"); }
}

//@ harness kind=proof tier=quick timeout=1200 extra="--default-unwind 6"
#[cfg(kani)] #[kani::proof] #[kani::stub(alloc::fmt::format, fmt_stub)]
fn c14_put() { ops_case(0); }
//@ harness kind=proof tier=quick timeout=1200 extra="--default-unwind 6"
#[cfg(kani)] #[kani::proof] #[kani::stub(alloc::fmt::format, fmt_stub)]
fn c14_replace() { ops_case(1); }
//@ harness kind=proof tier=quick timeout=1200 extra="--default-unwind 6"
#[cfg(kani)] #[kani::proof] #[kani::stub(alloc::fmt::format, fmt_stub)]
fn c14_take() { ops_case(2); }
//@ harness kind=proof tier=quick timeout=1200 extra="--default-unwind 6"
#[cfg(kani)] #[kani::proof] #[kani::stub(alloc::fmt::format, fmt_stub)]
fn c14_delete() { ops_case(3); }

// Vacuity canary
//@ harness kind=canary tier=quick expect=C14.sparse.canary.root-never-changes timeout=900 extra="--default-unwind 6"
#[cfg(kani)] #[kani::proof] #[kani::stub(alloc::fmt::format, fmt_stub)]
fn c14_canary() {
    let mut s = any_store();
    let m0 = s.meta_p.clone();
    let key = [s.p, s.s1];
    let _ = <Bp as BlueprintMutate<DataTable, Store>>::put(&mut s, &key, Column, &kani::any());
    kani::assert(s.meta_p == m0, "[C14.sparse.canary.root-never-changes]");
}

// ---- batched operations (SupportsBatching): init / insert / remove of up to 2 entries of one primary key ---------------
// After a batch, the key-value column holds exactly what single operations in the same order would have left (a later entry
// of a repeated key wins), P's tree holds exactly those entries, and the root recorded for P is the root over them.
#[cfg(kani)]
fn batch_case(op: u8, n: usize) {
    let mut s = any_store();
    if op == 0 { // init is for a primary key without entries
        if kani::any() { s.v1 = None; s.v2 = None; s.t1 = None; s.t2 = None; s.meta_p = None; }
    }
    let initialized = s.meta_p.is_some();
    let meta_q0 = s.meta_q.clone();
    let (p, s1, s2, v1_0, v2_0) = (s.p, s.s1, s.s2, s.v1, s.v2);
    let pick = |b: bool| if b { s1 } else { s2 };
    let (ka, kb) = (pick(kani::any()), pick(kani::any()));
    let (xa, xb): (u8, u8) = (kani::any(), kani::any());
    let set = [([p, ka], xa), ([p, kb], xb)];
    let r = match op {
        0 => <Bp as SupportsBatching<DataTable, Store>>::init(&mut s, Column, set.iter().take(n).map(|(k, v)| (k, v))),
        1 => <Bp as SupportsBatching<DataTable, Store>>::insert(&mut s, Column, set.iter().take(n).map(|(k, v)| (k, v))),
        _ => <Bp as SupportsBatching<DataTable, Store>>::remove(&mut s, Column, set.iter().take(n).map(|(k, v)| k)),
    };
    let ok = r.is_ok(); core::mem::forget(r);
    if op == 0 {
        kani::assert(ok == !initialized, "[C14.sparse.batch.init-succeeds-exactly-on-a-primary-key-without-a-recorded-root]");
        if !ok { kani::assert(s.v1 == v1_0 && s.v2 == v2_0 && consistent(&s), "[C14.sparse.batch.refused-init-changes-nothing]"); return }
    } else {
        kani::assert(ok, "[C14.sparse.batch.insert-and-remove-succeed-on-a-consistent-table]");
    }
    // what single operations in order would have left
    let (mut e1, mut e2) = (v1_0, v2_0);
    let mut i = 0;
    while i < 2 { if i < n { let (k, x) = if i == 0 { (ka, xa) } else { (kb, xb) }; let nv = if op <= 1 { Some(Value([x])) } else { None }; if k == s1 { e1 = nv } else { e2 = nv } } i += 1; }
    if n == 2 { kani::cover!(ka == kb && xa != xb, "[C14.sparse.batch.cover-repeated-key-with-different-values]"); }
    kani::assert(s.v1 == e1 && s.v2 == e2, "[C14.sparse.batch.column-holds-what-single-operations-in-order-would-leave]");
    kani::assert(s.t1 == e1.map(|v| v.0[0]) && s.t2 == e2.map(|v| v.0[0]), "[C14.sparse.batch.tree-holds-exactly-the-keys-current-entries]");
    kani::assert(consistent(&s), "[C14.sparse.batch.recorded-root-equals-the-root-over-the-keys-current-entries]");
    kani::assert(s.meta_q == meta_q0 && s.foreign_writes == 0, "[C14.sparse.batch.other-primary-keys-are-untouched]");
    if op == 2 && s.v1.is_none() && s.v2.is_none() { kani::assert(s.meta_p.is_none(), "[C14.sparse.batch.no-root-is-recorded-once-the-last-entry-is-removed]"); }
}
//@ harness kind=bounded tier=quick bound="batches of 2 entries of one primary key" timeout=1200 extra="--default-unwind 6"
#[cfg(kani)] #[kani::proof] #[kani::stub(alloc::fmt::format, fmt_stub)]
fn c14_batch_init_2() { batch_case(0, 2); }
//@ harness kind=bounded tier=quick bound="batches of 2 entries of one primary key" timeout=1200 extra="--default-unwind 6"
#[cfg(kani)] #[kani::proof] #[kani::stub(alloc::fmt::format, fmt_stub)]
fn c14_batch_insert_2() { batch_case(1, 2); }
//@ harness kind=bounded tier=quick bound="batches of 2 entries of one primary key" timeout=1200 extra="--default-unwind 6"
#[cfg(kani)] #[kani::proof] #[kani::stub(alloc::fmt::format, fmt_stub)]
fn c14_batch_remove_2() { batch_case(2, 2); }
//@ harness kind=bounded tier=thorough bound="batches of 1 entry" timeout=1200 extra="--default-unwind 6"
#[cfg(kani)] #[kani::proof] #[kani::stub(alloc::fmt::format, fmt_stub)]
fn c14_batch_insert_1() { batch_case(1, 1); }
