// Scratch crate generated on every run. Pasted from /repo's current working tree (header and body byte for byte), all from
// crates/fuel-core/src/graphql_api/indexation/balances.rs:
//   increase_message_balance, decrease_message_balance, increase_coin_balance, decrease_coin_balance, update
// Stand-ins (trusted, listed in unit.toml): the off-chain storage transaction is the map-semantics CONTRACT of its two
// tables, exact for one probed key per table (so the proofs hold for tables of any size); Coin / Message carry only the
// fields read; Event has the five variants of the real enum.
#![allow(unused)]
use core::cell::{Cell, RefCell};
use core::marker::PhantomData;
use std::borrow::Cow;

#[derive(Clone, Copy, Debug, PartialEq, Eq)] pub struct Address(pub u64);
#[derive(Clone, Copy, Debug, PartialEq, Eq)] pub struct AssetId(pub u64);
#[derive(Clone, Debug)] pub struct Coin { pub owner: Address, pub asset_id: AssetId, pub amount: u64 }
#[derive(Clone, Debug)] pub struct Message { pub recipient: Address, pub amount: u64, pub has_data: bool }
impl Message {
    pub fn recipient(&self) -> &Address { &self.recipient }
    pub fn amount(&self) -> u64 { self.amount }
    pub fn is_retryable_message(&self) -> bool { self.has_data }
}
pub enum Event { MessageImported(Message), MessageConsumed(Message), CoinCreated(Coin), CoinConsumed(Coin), ForcedTransactionFailed { id: u64 } }
#[derive(Clone, Copy, Debug, PartialEq, Eq)] pub struct CoinBalancesKey(pub Address, pub AssetId);
impl CoinBalancesKey { pub fn new(o: &Address, a: &AssetId) -> Self { CoinBalancesKey(*o, *a) } }
#[derive(Clone, Copy, Debug, Default, PartialEq, Eq)] pub struct MessageBalance { pub retryable: u128, pub non_retryable: u128 }
#[derive(Debug)]
pub enum IndexationError {
    CoinBalanceWouldUnderflow { owner: Address, asset_id: AssetId, current_amount: u128, requested_deduction: u128 },
    MessageBalanceWouldUnderflow { owner: Address, current_amount: u128, requested_deduction: u128, retryable: bool },
    Storage,
}
#[derive(Debug)] pub struct StorageError;
impl From<StorageError> for IndexationError { fn from(_: StorageError) -> Self { IndexationError::Storage } }

pub struct CoinBalances; pub struct MessageBalances;
pub trait Table { type Key: PartialEq + Copy; type Value: Clone + Default; fn slot(tx: &Tx) -> &Slot<Self::Key, Self::Value>; }
/// one table as its contract: exact for `probe`, nondeterministic elsewhere; counts writes to other keys
pub struct Slot<K, V> { pub probe: K, pub value: RefCell<Option<V>>, pub writes_elsewhere: Cell<u32>, pub writes: Cell<u32> }
pub struct Tx { pub coins: Slot<CoinBalancesKey, u128>, pub msgs: Slot<Address, MessageBalance>, pub read_fails: bool, pub write_fails: bool }
impl Table for CoinBalances { type Key = CoinBalancesKey; type Value = u128; fn slot(tx: &Tx) -> &Slot<CoinBalancesKey, u128> { &tx.coins } }
impl Table for MessageBalances { type Key = Address; type Value = MessageBalance; fn slot(tx: &Tx) -> &Slot<Address, MessageBalance> { &tx.msgs } }
pub trait OffChainDatabaseTransaction { fn storage<T: Table>(&mut self) -> TableRef<'_, T>; }
impl OffChainDatabaseTransaction for Tx { fn storage<T: Table>(&mut self) -> TableRef<'_, T> { TableRef(self, PhantomData) } }
pub struct TableRef<'a, T>(&'a Tx, PhantomData<T>);
impl<'a, T: Table> TableRef<'a, T> {
    pub fn get(&self, k: &T::Key) -> Result<Option<Cow<'a, T::Value>>, StorageError> {
        if self.0.read_fails { return Err(StorageError) }
        let s = T::slot(self.0);
        if *k == s.probe { Ok(s.value.borrow().clone().map(Cow::Owned)) } else { Ok(None) }
    }
    // (the whole table API is offered so that a change of WHICH operation the code uses still compiles and is judged by its effect)
    pub fn replace(&mut self, k: &T::Key, v: &T::Value) -> Result<Option<T::Value>, StorageError> {
        let old = if *k == T::slot(self.0).probe { T::slot(self.0).value.borrow().clone() } else { None };
        self.insert(k, v)?; Ok(old)
    }
    pub fn contains_key(&self, k: &T::Key) -> Result<bool, StorageError> { Ok(self.get(k)?.is_some()) }
    pub fn take(&mut self, k: &T::Key) -> Result<Option<T::Value>, StorageError> {
        if self.0.write_fails { return Err(StorageError) }
        let s = T::slot(self.0);
        s.writes.set(s.writes.get() + 1);
        if *k == s.probe { Ok(s.value.borrow_mut().take()) } else { s.writes_elsewhere.set(s.writes_elsewhere.get() + 1); Ok(None) }
    }
    pub fn remove(&mut self, k: &T::Key) -> Result<(), StorageError> { self.take(k).map(|_| ()) }
    pub fn insert(&mut self, k: &T::Key, v: &T::Value) -> Result<(), StorageError> {
        if self.0.write_fails { return Err(StorageError) }
        let s = T::slot(self.0);
        s.writes.set(s.writes.get() + 1);
        if *k == s.probe { *s.value.borrow_mut() = Some(v.clone()); } else { s.writes_elsewhere.set(s.writes_elsewhere.get() + 1); }
        Ok(())
    }
}

//@ extract crates/fuel-core/src/graphql_api/indexation/balances.rs increase_message_balance
//@ end
//@ extract crates/fuel-core/src/graphql_api/indexation/balances.rs decrease_message_balance
//@ end
//@ extract crates/fuel-core/src/graphql_api/indexation/balances.rs increase_coin_balance
//@ end
//@ extract crates/fuel-core/src/graphql_api/indexation/balances.rs decrease_coin_balance
//@ end
//@ extract crates/fuel-core/src/graphql_api/indexation/balances.rs update
//@ end

// =====================================================================================================================
#[cfg(kani)]
fn any_tx(ck: CoinBalancesKey, mk: Address) -> Tx {
    let c: Option<u128> = if kani::any() { Some(kani::any()) } else { None };
    let m: Option<MessageBalance> = if kani::any() { Some(MessageBalance { retryable: kani::any(), non_retryable: kani::any() }) } else { None };
    Tx { coins: Slot { probe: ck, value: RefCell::new(c), writes_elsewhere: Cell::new(0), writes: Cell::new(0) },
         msgs: Slot { probe: mk, value: RefCell::new(m), writes_elsewhere: Cell::new(0), writes: Cell::new(0) },
         read_fails: kani::any(), write_fails: kani::any() }
}

// One executor event against the balance index: the event's own (owner, asset) / recipient balance moves by exactly the
// event's amount (credits saturate at u128::MAX, debits below zero are an error that writes nothing); every other key and
// the other table are untouched; a disabled index does nothing.
//@ harness kind=proof tier=quick timeout=600
#[cfg(kani)]
#[kani::proof]
fn c36_update_balances() {
    let owner = Address(kani::any()); let asset = AssetId(kani::any());
    let ck = CoinBalancesKey(owner, asset);
    let rcpt = Address(kani::any());
    let mut tx = any_tx(ck, rcpt);
    let c0 = *tx.coins.value.borrow(); let m0 = *tx.msgs.value.borrow();
    let (rf, wf) = (tx.read_fails, tx.write_fails);
    let kind: u8 = kani::any();
    kani::assume(kind <= 4);
    let amount: u64 = kani::any();
    let has_data: bool = kani::any();
    let enabled: bool = kani::any();
    let ev = match kind {
        0 => Event::MessageImported(Message { recipient: rcpt, amount, has_data }),
        1 => Event::MessageConsumed(Message { recipient: rcpt, amount, has_data }),
        2 => Event::CoinCreated(Coin { owner, asset_id: asset, amount }),
        3 => Event::CoinConsumed(Coin { owner, asset_id: asset, amount }),
        _ => Event::ForcedTransactionFailed { id: 0 },
    };
    let r = update(&ev, &mut tx, enabled);
    let c1 = *tx.coins.value.borrow(); let m1 = *tx.msgs.value.borrow();
    let a = amount as u128;
    kani::cover!(r.is_err() && enabled && !rf && !wf, "[C36.index-balances.update.cover-underflow-rejected]");
    kani::cover!(r.is_ok() && enabled && kind == 2 && c0 == Some(u128::MAX), "[C36.index-balances.update.cover-saturating-credit]");
    kani::assert(tx.coins.writes_elsewhere.get() == 0 && tx.msgs.writes_elsewhere.get() == 0, "[C36.index-balances.update.only-the-events-own-key-is-written]");
    if !enabled || kind == 4 {
        kani::assert(r.is_ok() && c1 == c0 && m1 == m0 && tx.coins.writes.get() == 0 && tx.msgs.writes.get() == 0, "[C36.index-balances.update.disabled-index-and-irrelevant-events-change-nothing]");
    } else if kind >= 2 {
        let cur = c0.unwrap_or(0);
        kani::assert(m1 == m0 && tx.msgs.writes.get() == 0, "[C36.index-balances.update.coin-event-leaves-message-balances-untouched]");
        if kind == 2 {
            kani::assert(r.is_ok() == (!rf && !wf), "[C36.index-balances.update.credit-fails-only-on-storage-error]");
            kani::assert(if r.is_ok() { c1 == Some(if cur > u128::MAX - a { u128::MAX } else { cur + a }) } else { c1 == c0 }, "[C36.index-balances.update.coin-created-adds-exactly-the-amount-saturating]");
        } else {
            kani::assert(r.is_ok() == (!rf && !wf && cur >= a), "[C36.index-balances.update.debit-succeeds-iff-balance-covers-the-amount]");
            kani::assert(if r.is_ok() { c1 == Some(cur - a) } else { c1 == c0 }, "[C36.index-balances.update.coin-consumed-subtracts-exactly-the-amount-or-changes-nothing]");
        }
    } else {
        let cur = m0.unwrap_or_default();
        kani::assert(c1 == c0 && tx.coins.writes.get() == 0, "[C36.index-balances.update.message-event-leaves-coin-balances-untouched]");
        let (mine, other) = if has_data { (cur.retryable, cur.non_retryable) } else { (cur.non_retryable, cur.retryable) };
        let mk = |mine: u128| if has_data { MessageBalance { retryable: mine, non_retryable: other } } else { MessageBalance { retryable: other, non_retryable: mine } };
        if kind == 0 {
            kani::assert(r.is_ok() == (!rf && !wf), "[C36.index-balances.update.credit-fails-only-on-storage-error]");
            kani::assert(if r.is_ok() { m1 == Some(mk(if mine > u128::MAX - a { u128::MAX } else { mine + a })) } else { m1 == m0 }, "[C36.index-balances.update.message-imported-adds-to-its-own-retryability-bucket-only]");
        } else {
            kani::assert(r.is_ok() == (!rf && !wf && mine >= a), "[C36.index-balances.update.debit-succeeds-iff-balance-covers-the-amount]");
            kani::assert(if r.is_ok() { m1 == Some(mk(mine - a)) } else { m1 == m0 }, "[C36.index-balances.update.message-consumed-subtracts-from-its-own-bucket-or-changes-nothing]");
        }
    }
}

// Vacuity canary: "balances never change" must FAIL.
//@ harness kind=canary tier=quick expect=C36.index-balances.canary.never-changes timeout=600
#[cfg(kani)]
#[kani::proof]
fn c36_canary() {
    let owner = Address(kani::any()); let asset = AssetId(kani::any());
    let mut tx = any_tx(CoinBalancesKey(owner, asset), Address(0));
    let c0 = *tx.coins.value.borrow();
    let _ = update(&Event::CoinCreated(Coin { owner, asset_id: asset, amount: kani::any() }), &mut tx, true);
    kani::assert(*tx.coins.value.borrow() == c0, "[C36.index-balances.canary.never-changes]");
}
