// Scratch crate generated on every run. Pasted from /repo's current working tree (header and body byte for byte), all from
// crates/fuel-core/src/graphql_api/worker_service.rs:
//   Task::process_block (the whole `impl Task` block it lives in), process_executor_events, update_event_based_indexation
// Stand-ins (trusted, listed in unit.toml): indexation::balances::update (proved in the `balances` crate of this unit) and
// indexation::coins_to_spend::update are RECORDING CONTRACTS: they note which event they were given, in which order and under
// which flag, and answer Ok / an indexation error / a storage error as the harness chose. The owned-coin, owned-message,
// spent-message and relayed-status tables are their map contract, exact for one probed key each. Everything else process_block
// calls (transaction statuses, owner index, old-transaction tables, block id index, tx counter, status manager, subscriptions,
// postcard, metrics) is a counted no-op that may fail where the real one may.
#![allow(unused)]
use core::cell::{Cell, RefCell};
use core::marker::PhantomData;
use std::{borrow::Cow, ops::Deref, sync::Arc};

#[derive(Clone, Copy, Debug, PartialEq, Eq)] pub struct Address(pub u64);
#[derive(Clone, Copy, Debug, PartialEq, Eq)] pub struct AssetId(pub u64);
#[derive(Clone, Copy, Debug, PartialEq, Eq)] pub struct UtxoId(pub u64);
#[derive(Clone, Copy, Debug, PartialEq, Eq)] pub struct Nonce(pub u64);
#[derive(Clone, Copy, Debug, PartialEq, Eq)] pub struct Bytes32(pub u64);
#[derive(Clone, Copy, Debug, PartialEq, Eq)] pub struct RelayedTransactionId(pub u64);
impl From<RelayedTransactionId> for Bytes32 { fn from(r: RelayedTransactionId) -> Self { Bytes32(r.0) } }
#[derive(Clone, Copy, Debug, PartialEq, Eq)] pub struct BlockHeight(pub u32);
#[derive(Clone, Copy, Debug, PartialEq, Eq)] pub struct BlockId(pub u64);
#[derive(Clone, Copy, Debug, PartialEq, Eq)] pub struct ChainId(pub u64);
#[derive(Clone, Copy, Debug, PartialEq, Eq)] pub struct TxId(pub u64);
#[derive(Clone, Copy, Debug)] pub struct Coin { pub id: u8, pub owner: Address, pub utxo_id: UtxoId }
#[derive(Clone, Copy, Debug)] pub struct Message { pub id: u8, pub recipient: Address, pub nonce: Nonce }
impl Message { pub fn recipient(&self) -> &Address { &self.recipient } pub fn nonce(&self) -> &Nonce { &self.nonce } }
#[derive(Clone, Copy, Debug)]
pub enum Event { MessageImported(Message), MessageConsumed(Message), CoinCreated(Coin), CoinConsumed(Coin), ForcedTransactionFailed { id: RelayedTransactionId, block_height: BlockHeight, failure: u8 } }
impl Event { pub fn tag(&self) -> u8 { match self { Event::MessageImported(m) | Event::MessageConsumed(m) => m.id, Event::CoinCreated(c) | Event::CoinConsumed(c) => c.id, Event::ForcedTransactionFailed { failure, .. } => *failure } } }
#[derive(Clone, Copy, Debug, PartialEq, Eq)] pub enum RelayedTransactionStatus { Failed { block_height: BlockHeight, failure: u8 } }
#[derive(Clone, Copy, Debug, PartialEq, Eq)] pub struct OwnedCoinKey(pub Address, pub UtxoId);
pub fn owner_coin_id_key(o: &Address, u: &UtxoId) -> OwnedCoinKey { OwnedCoinKey(*o, *u) }
#[derive(Clone, Copy, Debug, PartialEq, Eq)] pub struct OwnedMessageKey(pub Address, pub Nonce);
impl OwnedMessageKey { pub fn new(a: &Address, n: &Nonce) -> Self { OwnedMessageKey(*a, *n) } }

#[derive(Debug)] pub struct StorageError;
impl core::fmt::Display for StorageError { fn fmt(&self, _f: &mut core::fmt::Formatter<'_>) -> core::fmt::Result { Ok(()) } }
impl std::error::Error for StorageError {}
pub type StorageResult<T> = Result<T, StorageError>;
pub mod indexation {
    pub mod error {
        #[derive(Debug)] pub enum IndexationError { Underflow, StorageError(crate::StorageError) }
        impl core::fmt::Display for IndexationError { fn fmt(&self, _f: &mut core::fmt::Formatter<'_>) -> core::fmt::Result { Ok(()) } }
    }
    // contract stand-ins: record (event tag, flag) in call order; answer as scripted
    pub mod balances {
        pub fn update<T: crate::OffChainDatabaseTransaction>(event: &crate::Event, tx: &mut T, enabled: bool) -> Result<(), super::error::IndexationError> { tx.state().note_index(0, event.tag(), enabled, 0) }
    }
    pub mod coins_to_spend {
        pub fn update<T: crate::OffChainDatabaseTransaction>(event: &crate::Event, tx: &mut T, enabled: bool, base: &crate::AssetId) -> Result<(), super::error::IndexationError> { tx.state().note_index(1, event.tag(), enabled, base.0) }
    }
}
use indexation::error::IndexationError;
pub mod tracing { macro_rules! error { ($($t:tt)*) => { () } } pub(crate) use error; }

pub struct OwnedCoins; pub struct OwnedMessageIds; pub struct SpentMessages; pub struct RelayedTransactionStatuses; pub struct FuelBlockIdsToHeights;
/// one table as its contract: exact for `probe`, nondeterministic elsewhere; counts writes
pub struct Slot<K, V> { pub probe: K, pub value: RefCell<Option<V>>, pub writes_elsewhere: Cell<u32>, pub writes: Cell<u32> }
impl<K, V> Slot<K, V> { pub fn new(probe: K, v: Option<V>) -> Self { Slot { probe, value: RefCell::new(v), writes_elsewhere: Cell::new(0), writes: Cell::new(0) } } }
pub trait Table { type Key: PartialEq + Copy; type Value: Clone; fn slot(tx: &State) -> &Slot<Self::Key, Self::Value>; }
impl Table for OwnedCoins { type Key = OwnedCoinKey; type Value = (); fn slot(s: &State) -> &Slot<OwnedCoinKey, ()> { &s.owned_coins } }
impl Table for OwnedMessageIds { type Key = OwnedMessageKey; type Value = (); fn slot(s: &State) -> &Slot<OwnedMessageKey, ()> { &s.owned_msgs } }
impl Table for SpentMessages { type Key = Nonce; type Value = (); fn slot(s: &State) -> &Slot<Nonce, ()> { &s.spent_msgs } }
impl Table for RelayedTransactionStatuses { type Key = Bytes32; type Value = RelayedTransactionStatus; fn slot(s: &State) -> &Slot<Bytes32, RelayedTransactionStatus> { &s.relayed } }
impl Table for FuelBlockIdsToHeights { type Key = BlockId; type Value = BlockHeight; fn slot(s: &State) -> &Slot<BlockId, BlockHeight> { &s.block_ids } }
pub struct State {
    pub owned_coins: Slot<OwnedCoinKey, ()>, pub owned_msgs: Slot<OwnedMessageKey, ()>, pub spent_msgs: Slot<Nonce, ()>, pub relayed: Slot<Bytes32, RelayedTransactionStatus>, pub block_ids: Slot<BlockId, BlockHeight>,
    pub write_fails: bool,
    // calls of the two index updaters: (which, event tag, flag, base asset) in order
    pub index_calls: RefCell<[(u8, u8, bool, u64); 4]>, pub n_index_calls: Cell<usize>,
    pub index_answers: [u8; 4], // 0 = Ok, 1 = indexation error (logged and ignored), 2 = storage error
    pub commits: Cell<u32>, pub index_calls_at_commit: Cell<usize>, pub steps_before_events: Cell<u32>,
    pub status_flag: Cell<Option<bool>>, pub step_fails: u8, pub tx_count_added: Cell<u64>,
}
impl State {
    pub fn note_index(&self, which: u8, tag: u8, flag: bool, base: u64) -> Result<(), IndexationError> {
        let k = self.n_index_calls.get(); self.n_index_calls.set(k + 1);
        if k < 4 { self.index_calls.borrow_mut()[k] = (which, tag, flag, base); }
        match if k < 4 { self.index_answers[k] } else { 0 } { 0 => Ok(()), 1 => Err(IndexationError::Underflow), _ => Err(IndexationError::StorageError(StorageError)) }
    }
}
pub trait OffChainDatabaseTransaction {
    fn state(&self) -> &State;
    fn storage_as_mut<T: Table>(&mut self) -> TableRef<'_, T> { TableRef(self.state(), PhantomData) }
    fn storage<T: Table>(&mut self) -> TableRef<'_, T> { TableRef(self.state(), PhantomData) }
    fn increase_tx_count(&mut self, n: u64) -> StorageResult<u64> { self.state().tx_count_added.set(n); if self.state().step_fails == 4 { Err(StorageError) } else { Ok(n) } }
    fn commit(self) -> StorageResult<()>;
}
pub struct Tx<'a>(pub &'a State);
impl<'a> OffChainDatabaseTransaction for Tx<'a> {
    fn state(&self) -> &State { self.0 }
    fn commit(self) -> StorageResult<()> { self.0.commits.set(self.0.commits.get() + 1); self.0.index_calls_at_commit.set(self.0.n_index_calls.get()); if self.0.step_fails == 5 { Err(StorageError) } else { unsafe { COMMITTED_OK = true; } Ok(()) } }
}
pub struct TableRef<'a, T>(&'a State, PhantomData<T>);
impl<'a, T: Table> TableRef<'a, T> {
    pub fn get(&self, k: &T::Key) -> Result<Option<Cow<'a, T::Value>>, StorageError> { let s = T::slot(self.0); if *k == s.probe { Ok(s.value.borrow().clone().map(Cow::Owned)) } else { Ok(None) } }
    pub fn contains_key(&self, k: &T::Key) -> Result<bool, StorageError> { Ok(self.get(k)?.is_some()) }
    pub fn replace(&mut self, k: &T::Key, v: &T::Value) -> Result<Option<T::Value>, StorageError> { let old = if *k == T::slot(self.0).probe { T::slot(self.0).value.borrow().clone() } else { None }; self.insert(k, v)?; Ok(old) }
    pub fn take(&mut self, k: &T::Key) -> Result<Option<T::Value>, StorageError> {
        if self.0.write_fails { return Err(StorageError) }
        let s = T::slot(self.0); s.writes.set(s.writes.get() + 1);
        if *k == s.probe { Ok(s.value.borrow_mut().take()) } else { s.writes_elsewhere.set(s.writes_elsewhere.get() + 1); Ok(None) }
    }
    pub fn remove(&mut self, k: &T::Key) -> Result<(), StorageError> { self.take(k).map(|_| ()) }
    pub fn insert(&mut self, k: &T::Key, v: &T::Value) -> Result<(), StorageError> {
        if self.0.write_fails { return Err(StorageError) }
        let s = T::slot(self.0); s.writes.set(s.writes.get() + 1);
        if *k == s.probe { *s.value.borrow_mut() = Some(v.clone()); } else { s.writes_elsewhere.set(s.writes_elsewhere.get() + 1); }
        Ok(())
    }
}

// ---- what process_block needs around the events ------------------------------------------------------------------------
pub struct Header { pub height: BlockHeight }
impl Header { pub fn height(&self) -> &BlockHeight { &self.height } }
pub struct Transactions(pub usize);
impl Transactions { pub fn iter(&self) -> core::option::IntoIter<()> { None.into_iter() } pub fn len(&self) -> usize { self.0 } }
pub struct Block { pub header: Header, pub id: BlockId, pub txs: Transactions }
impl Block { pub fn header(&self) -> &Header { &self.header } pub fn id(&self) -> BlockId { self.id } pub fn transactions(&self) -> &Transactions { &self.txs } }
pub struct Sealed { pub entity: Block }
#[derive(Clone, Copy)] pub struct ExecStatus { pub id: TxId, pub result: u8 }
pub struct ImportResult { pub sealed_block: Sealed, pub events: EventList, pub tx_status: Option<ExecStatus> }
pub struct EventList(pub [Option<Event>; 2]);
impl EventList { pub fn iter(&self) -> EventIter<'_> { EventIter(&self.0, 0) } }
pub struct EventIter<'a>(&'a [Option<Event>; 2], usize);
// (the list ends at its first empty slot)
impl<'a> Iterator for EventIter<'a> { type Item = &'a Event; fn next(&mut self) -> Option<&'a Event> { if self.1 >= 2 { return None } let e = self.0[self.1].as_ref(); self.1 += 1; e } }
pub struct SharedImportResult(pub ImportResult);
impl Deref for SharedImportResult { type Target = ImportResult; fn deref(&self) -> &ImportResult { &self.0 } }
impl AsRef<SharedImportResult> for SharedImportResult { fn as_ref(&self) -> &SharedImportResult { self } }
pub mod ports { pub mod worker {
    pub trait TxStatusCompletion { fn send_complete(&self, id: crate::TxId, h: &crate::BlockHeight, s: crate::Status); }
    pub trait OffChainDatabase { type Transaction<'a>: crate::OffChainDatabaseTransaction where Self: 'a; fn transaction(&mut self) -> Self::Transaction<'_>; }
} }
pub struct Status(pub u8);
pub struct RawStatus(pub u8);
impl From<RawStatus> for Status { fn from(r: RawStatus) -> Status { Status(r.0) } }
pub fn from_executor_to_status(_b: &Block, r: u8) -> RawStatus { RawStatus(r) }
pub struct Db(pub State);
impl ports::worker::OffChainDatabase for Db { type Transaction<'a> = Tx<'a>; fn transaction(&mut self) -> Tx<'_> { Tx(&self.0) } }
static mut COMMITTED_OK: bool = false;
pub struct Mgr { pub completed: Cell<u32>, pub completed_before_commit: Cell<bool>, pub last: Cell<(u64, u32, u8)> }
impl ports::worker::TxStatusCompletion for Mgr { fn send_complete(&self, id: TxId, h: &BlockHeight, s: Status) { self.completed.set(self.completed.get() + 1); if !unsafe { COMMITTED_OK } { self.completed_before_commit.set(true) } self.last.set((id.0, h.0, s.0)); } }
pub struct HeightHandler { pub notified: Cell<Option<BlockHeight>> }
impl HeightHandler { pub fn notify_and_update(&self, h: BlockHeight) { self.notified.set(Some(h)) } }
pub struct BlockSub;
impl BlockSub { pub fn send(&self, _b: Arc<RawImport>) -> Result<usize, ()> { Ok(0) } }
pub struct RawImport;
pub mod postcard { pub fn to_allocvec(_r: &crate::ImportResult) -> Result<crate::RawImport, crate::StorageError> { Ok(crate::RawImport) } }
pub struct SharedState { pub block_height_subscription_handler: HeightHandler, pub block_subscription: BlockSub }
pub struct Gauge; impl Gauge { pub fn set(&self, _v: i64) {} }
pub struct Metrics { pub total_txs_count: Gauge }
static METRICS: Metrics = Metrics { total_txs_count: Gauge };
pub fn graphql_metrics() -> &'static Metrics { &METRICS }
pub trait StorageAsMut {}
fn step<T: OffChainDatabaseTransaction>(tx: &T, n: u8) -> anyhow::Result<()> { if tx.state().n_index_calls.get() == 0 { tx.state().steps_before_events.set(tx.state().steps_before_events.get() + 1); } if tx.state().step_fails == n { Err(anyhow::anyhow!("step")) } else { Ok(()) } }
pub fn persist_transaction_status<T: OffChainDatabaseTransaction>(_r: &SharedImportResult, asset_metadata_flag: bool, tx: &mut T) -> anyhow::Result<()> { tx.state().status_flag.set(Some(asset_metadata_flag)); step(tx, 1) }
pub fn index_tx_owners_for_block<T: OffChainDatabaseTransaction>(_b: &Block, tx: &mut T, _c: &ChainId) -> anyhow::Result<()> { step(tx, 2) }
pub fn process_transactions<'a, I: Iterator<Item = ()>, T: OffChainDatabaseTransaction>(_i: I, tx: &mut T) -> anyhow::Result<()> { step(tx, 3) }
pub type BoxStream<T> = PhantomData<T>;

pub struct Task<TxStatusManager, D> {
    tx_status_manager: TxStatusManager,
    block_importer: BoxStream<SharedImportResult>,
    database: D,
    chain_id: ChainId,
    continue_on_error: bool,
    balances_indexation_enabled: bool,
    coins_to_spend_indexation_enabled: bool,
    asset_metadata_indexation_enabled: bool,
    base_asset_id: AssetId,
    shared_state: SharedState,
}
//@ extract crates/fuel-core/src/graphql_api/worker_service.rs impl Task#1
//@ end
//@ extract crates/fuel-core/src/graphql_api/worker_service.rs process_executor_events
//@ end
//@ extract crates/fuel-core/src/graphql_api/worker_service.rs update_event_based_indexation
//@ end

// =====================================================================================================================
#[cfg(kani)]
fn any_event() -> Event {
    let c = Coin { id: kani::any(), owner: Address(kani::any()), utxo_id: UtxoId(kani::any()) };
    let m = Message { id: kani::any(), recipient: Address(kani::any()), nonce: Nonce(kani::any()) };
    match kani::any::<u8>() % 5 { 0 => Event::MessageImported(m), 1 => Event::MessageConsumed(m), 2 => Event::CoinCreated(c), 3 => Event::CoinConsumed(c),
        _ => Event::ForcedTransactionFailed { id: RelayedTransactionId(kani::any()), block_height: BlockHeight(kani::any()), failure: kani::any() } }
}
#[cfg(kani)]
fn any_state(index_answers: [u8; 4]) -> State {
    let unit = |b: bool| if b { Some(()) } else { None };
    State { owned_coins: Slot::new(OwnedCoinKey(Address(kani::any()), UtxoId(kani::any())), unit(kani::any())), owned_msgs: Slot::new(OwnedMessageKey(Address(kani::any()), Nonce(kani::any())), unit(kani::any())),
        spent_msgs: Slot::new(Nonce(kani::any()), unit(kani::any())), relayed: Slot::new(Bytes32(kani::any()), None), block_ids: Slot::new(BlockId(kani::any()), None),
        write_fails: kani::any(), index_calls: RefCell::new([(9, 0, false, 0); 4]), n_index_calls: Cell::new(0), index_answers,
        commits: Cell::new(0), index_calls_at_commit: Cell::new(0), steps_before_events: Cell::new(0), status_flag: Cell::new(None), step_fails: 0, tx_count_added: Cell::new(0) }
}

// One executor event against the ownership indexes: a created coin is listed under its owner, a consumed coin is removed, an
// imported message is listed under its recipient, a consumed message is removed and recorded as spent, a failed relayed
// transaction gets its status; nothing else is written - also when the balances or coins-to-spend indexer reports an
// indexation error for the event (those are logged; the ownership indexes must still follow the chain).
//@ harness kind=proof tier=quick prop=C36 timeout=600
#[cfg(kani)]
#[kani::proof]
fn c36_one_event_ownership_indexes() {
    // the balances / coins-to-spend indexers may each report an indexation (non-storage) error for the event: it is logged, and
    // the ownership bookkeeping below must happen all the same
    let (a0, a1): (u8, u8) = (kani::any(), kani::any()); kani::assume(a0 <= 1 && a1 <= 1);
    let st = any_state([a0, a1, 0, 0]);
    let (oc0, om0, sm0) = (st.owned_coins.value.borrow().is_some(), st.owned_msgs.value.borrow().is_some(), st.spent_msgs.value.borrow().is_some());
    let ev = any_event();
    let (bf, cf, base): (bool, bool, u64) = (kani::any(), kani::any(), kani::any());
    let mut tx = Tx(&st);
    let r = process_executor_events(Some(Cow::Borrowed(&ev)).into_iter(), &mut tx, bf, cf, &AssetId(base));
    let ok = r.is_ok(); core::mem::forget(r);
    kani::assert(ok == !st.write_fails, "[C36.index-balances.events.fails-exactly-when-a-storage-write-fails]");
    let (oc, om, sm) = (st.owned_coins.value.borrow().is_some(), st.owned_msgs.value.borrow().is_some(), st.spent_msgs.value.borrow().is_some());
    if ok {
        match ev {
            Event::CoinCreated(c) => {
                kani::assert(oc == (oc0 || OwnedCoinKey(c.owner, c.utxo_id) == st.owned_coins.probe), "[C36.index-balances.events.created-coin-is-listed-under-its-owner-and-no-other-entry-changes]");
                kani::assert(st.owned_coins.writes.get() == 1 && st.owned_msgs.writes.get() == 0 && st.spent_msgs.writes.get() == 0 && st.relayed.writes.get() == 0, "[C36.index-balances.events.a-coin-event-writes-one-owned-coin-entry-and-nothing-else]");
            }
            Event::CoinConsumed(c) => {
                kani::assert(oc == (oc0 && OwnedCoinKey(c.owner, c.utxo_id) != st.owned_coins.probe), "[C36.index-balances.events.consumed-coin-is-removed-from-its-owner-and-no-other-entry-changes]");
                kani::assert(st.owned_coins.writes.get() == 1 && st.owned_msgs.writes.get() == 0 && st.spent_msgs.writes.get() == 0 && st.relayed.writes.get() == 0, "[C36.index-balances.events.a-coin-event-writes-one-owned-coin-entry-and-nothing-else]");
            }
            Event::MessageImported(m) => {
                kani::assert(om == (om0 || OwnedMessageKey(m.recipient, m.nonce) == st.owned_msgs.probe) && sm == sm0, "[C36.index-balances.events.imported-message-is-listed-under-its-recipient-and-not-marked-spent]");
                kani::assert(st.owned_msgs.writes.get() == 1 && st.owned_coins.writes.get() == 0 && st.spent_msgs.writes.get() == 0 && st.relayed.writes.get() == 0, "[C36.index-balances.events.a-message-import-writes-one-owned-message-entry-and-nothing-else]");
            }
            Event::MessageConsumed(m) => {
                kani::assert(om == (om0 && OwnedMessageKey(m.recipient, m.nonce) != st.owned_msgs.probe), "[C36.index-balances.events.consumed-message-is-removed-from-its-recipient]");
                kani::assert(sm == (sm0 || m.nonce == st.spent_msgs.probe), "[C36.index-balances.events.consumed-message-is-recorded-as-spent]");
                kani::assert(st.owned_msgs.writes.get() == 1 && st.spent_msgs.writes.get() == 1 && st.owned_coins.writes.get() == 0 && st.relayed.writes.get() == 0, "[C36.index-balances.events.a-message-consumption-writes-its-two-entries-and-nothing-else]");
            }
            Event::ForcedTransactionFailed { id, block_height, failure } => {
                let v = *st.relayed.value.borrow();
                kani::assert(oc == oc0 && om == om0 && sm == sm0 && (Bytes32(id.0) != st.relayed.probe || v == Some(RelayedTransactionStatus::Failed { block_height, failure })), "[C36.index-balances.events.failed-relayed-transaction-gets-its-status-and-no-ownership-entry-changes]");
            }
        }
        // both indexers saw this event, balances first, each under its own flag
        let calls = *st.index_calls.borrow();
        if a0 == 0 && a1 == 0 { kani::assert(st.n_index_calls.get() == 2 && calls[0] == (0, ev.tag(), bf, 0) && calls[1] == (1, ev.tag(), cf, base), "[C36.index-balances.events.balances-and-coins-to-spend-indexers-each-get-the-event-under-their-own-flag]"); }
        kani::cover!(a0 == 1, "[C36.index-balances.events.cover-balance-indexation-error-is-logged-and-ownership-still-updated]");
    }
}

// Two events: both indexers see every event exactly once, in the order the executor produced them; a storage error of an
// indexer stops processing with an error.
//@ harness kind=bounded tier=quick prop=C36 bound="2 events per call" timeout=600 extra="--default-unwind 6"
#[cfg(kani)]
#[kani::proof]
fn c36_two_events_in_order() {
    let storage_error_at: usize = kani::any(); kani::assume(storage_error_at <= 4);
    let mut answers = [0u8; 4]; if storage_error_at < 4 { answers[storage_error_at] = 2; }
    let mut st = any_state(answers); st.write_fails = false;
    let (e0, e1) = (any_event(), any_event());
    let (bf, cf, base): (bool, bool, u64) = (kani::any(), kani::any(), kani::any());
    let evs = EventList([Some(e0), Some(e1)]);
    let mut tx = Tx(&st);
    let r = process_executor_events(evs.iter().map(Cow::Borrowed), &mut tx, bf, cf, &AssetId(base));
    let ok = r.is_ok(); core::mem::forget(r);
    kani::assert(ok == (storage_error_at == 4), "[C36.index-balances.events.an-indexers-storage-error-is-returned]");
    let calls = *st.index_calls.borrow();
    if ok {
        kani::assert(st.n_index_calls.get() == 4 && calls[0] == (0, e0.tag(), bf, 0) && calls[1] == (1, e0.tag(), cf, base) && calls[2] == (0, e1.tag(), bf, 0) && calls[3] == (1, e1.tag(), cf, base),
            "[C36.index-balances.events.every-event-reaches-both-indexers-exactly-once-in-executor-order]");
    } else {
        kani::assert(st.n_index_calls.get() == storage_error_at + 1, "[C36.index-balances.events.nothing-is-indexed-after-a-storage-error]");
    }
}

// One imported block: the worker hands every executor event of the block to the indexers under the worker's OWN flags (balances
// flag to the balances index, coins-to-spend flag and base asset to the coins-to-spend index, asset-metadata flag to the receipt
// indexer), commits exactly once after all of them, and reports transaction statuses only after the commit succeeded.
//@ harness kind=bounded tier=quick prop=C36 bound="at most 2 events per block" timeout=600 extra="--default-unwind 6"
#[cfg(kani)]
#[kani::proof]
fn c36_process_block() {
    unsafe { COMMITTED_OK = false; }
    let mut st = any_state([0; 4]); st.write_fails = kani::any(); st.step_fails = kani::any(); kani::assume(st.step_fails <= 5);
    let step_fails = st.step_fails; let write_fails = st.write_fails;
    let (bf, cf, af, base): (bool, bool, bool, u64) = (kani::any(), kani::any(), kani::any(), kani::any());
    let height = BlockHeight(kani::any()); let id = st.block_ids.probe;
    let ev = |b: bool| if b { Some(any_event()) } else { None };
    let e0 = ev(kani::any()); let e1 = if e0.is_some() { ev(kani::any()) } else { None };
    let n_events = e0.is_some() as usize + e1.is_some() as usize;
    let mut task = Task { tx_status_manager: Mgr { completed: Cell::new(0), completed_before_commit: Cell::new(false), last: Cell::new((0, 0, 0)) }, block_importer: PhantomData, database: Db(st), chain_id: ChainId(0), continue_on_error: kani::any(),
        balances_indexation_enabled: bf, coins_to_spend_indexation_enabled: cf, asset_metadata_indexation_enabled: af, base_asset_id: AssetId(base),
        shared_state: SharedState { block_height_subscription_handler: HeightHandler { notified: Cell::new(None) }, block_subscription: BlockSub } };
    let status = ExecStatus { id: TxId(kani::any()), result: kani::any() };
    let result = SharedImportResult(ImportResult { sealed_block: Sealed { entity: Block { header: Header { height }, id, txs: Transactions(kani::any()) } }, events: EventList([e0, e1]), tx_status: Some(status) });
    let r = task.process_block(result);
    let ok = r.is_ok(); core::mem::forget(r);
    let st = &task.database.0;
    let calls = *st.index_calls.borrow();
    let n = st.n_index_calls.get();
    let mut flags_right = true;
    let mut k = 0; while k < 4 { if k < n { let (which, _t, flag, b) = calls[k]; if which == 0 && flag != bf { flags_right = false } if which == 1 && (flag != cf || b != base) { flags_right = false } } k += 1; }
    kani::cover!(ok && n == 4, "[C36.index-balances.worker.cover-block-with-two-events-committed]");
    kani::assert(flags_right, "[C36.index-balances.worker.each-indexer-runs-under-the-workers-own-flag-for-it]");
    kani::assert(st.status_flag.get().is_none() || st.status_flag.get() == Some(af), "[C36.index-balances.worker.receipt-indexer-runs-under-the-asset-metadata-flag]");
    kani::assert(ok == ((step_fails == 0 || step_fails == 4) && !write_fails), "[C36.index-balances.worker.fails-exactly-when-a-step-or-the-commit-fails]");
    if ok {
        kani::assert(st.commits.get() == 1 && st.index_calls_at_commit.get() == 2 * n_events && n == 2 * n_events, "[C36.index-balances.worker.committed-once-after-every-event-of-the-block-was-indexed]");
        kani::assert(*st.block_ids.value.borrow() == Some(height), "[C36.index-balances.worker.block-id-is-indexed-to-its-height]");
        kani::assert(task.tx_status_manager.completed.get() == 1 && task.tx_status_manager.last.get() == (status.id.0, height.0, status.result) && task.shared_state.block_height_subscription_handler.notified.get() == Some(height), "[C36.index-balances.worker.statuses-and-height-are-announced-for-the-committed-block]");
    } else {
        kani::assert(st.commits.get() == 0 || step_fails == 5, "[C36.index-balances.worker.nothing-is-committed-after-a-failed-step]");
        kani::assert(task.tx_status_manager.completed.get() == 0 && task.shared_state.block_height_subscription_handler.notified.get().is_none(), "[C36.index-balances.worker.nothing-is-announced-for-a-block-that-was-not-committed]");
    }
    kani::assert(!task.tx_status_manager.completed_before_commit.get(), "[C36.index-balances.worker.statuses-are-announced-only-after-the-commit-succeeded]");
}
