// From the per-commit contract (Kani, real code) to every history of commits: accepted heights form a +1 chain,
// the reported height equals the height of the last accepted commit that carried one, and failed commits change nothing.
use vstd::prelude::*;
verus! {

//@ include-pred pred.rs

pub struct St { pub some: bool, pub h: u32 }
pub struct Commit { pub n_new: u8, pub new: u32, pub ok: bool }

pub open spec fn step_ok(s: St, c: Commit, s2: St) -> bool {
    c.ok == commit_allowed(s.some, s.h, c.n_new, c.new)
    && s2 == (if c.ok && c.n_new == 1 { St { some: true, h: c.new } } else { s })
}
pub open spec fn step_at(ss: Seq<St>, cs: Seq<Commit>, i: int) -> bool { step_ok(ss[i], cs[i], ss[i + 1]) }
pub open spec fn valid_run(ss: Seq<St>, cs: Seq<Commit>) -> bool {
    ss.len() == cs.len() + 1 && forall|i: int| 0 <= i < cs.len() ==> #[trigger] step_at(ss, cs, i)
}

pub proof fn lemma_height_chain(ss: Seq<St>, cs: Seq<Commit>, k: int)
    requires valid_run(ss, cs), 0 <= k <= cs.len(),
    ensures
        // once started, the reported height never disappears and never decreases
        ss[0].some ==> ss[k].some && ss[k].h >= ss[0].h,
        // every accepted height-carrying commit after the start is exactly previous + 1
        forall|i: int| 0 <= i < k && #[trigger] cs[i].ok && cs[i].n_new == 1 && ss[i].some ==> cs[i].new == ss[i].h + 1 && ss[i + 1].h == cs[i].new,
        // a failed commit leaves the reported height unchanged
        forall|i: int| 0 <= i < k && !(#[trigger] cs[i].ok) ==> ss[i + 1] == ss[i],
    decreases k,
{
    if k > 0 {
        lemma_height_chain(ss, cs, k - 1);
        assert(step_at(ss, cs, k - 1));
    }
}

pub proof fn lemma_run_exists()
    ensures exists|ss: Seq<St>, cs: Seq<Commit>| valid_run(ss, cs) && cs.len() == 2 && cs[1].ok,
{
    let s0 = St { some: false, h: 0 };
    let s1 = St { some: true, h: 5 };
    let s2 = St { some: true, h: 6 };
    let ss = seq![s0, s1, s2];
    let cs = seq![Commit { n_new: 1, new: 5, ok: true }, Commit { n_new: 1, new: 6, ok: true }];
    assert(step_at(ss, cs, 0));
    assert(step_at(ss, cs, 1));
    assert(valid_run(ss, cs));
}

} // verus!
fn main() {}
