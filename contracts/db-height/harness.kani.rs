// Contract harness for commit_changes_with_height_update on the REAL storage stack
// (Database<OnChain> -> StructuredStorage -> StorageTransaction -> MemoryStore), symbolic heights.
use super::*;
use crate::database::database_description::{on_chain::OnChain, gas_price::GasPriceDatabase};
//@ include pred.rs

fn lock_slow_stub(_m: &parking_lot::RawMutex, _t: Option<std::time::Instant>) -> bool { panic!("contended lock in single-threaded harness") }
fn unlock_slow_stub(_m: &parking_lot::RawMutex, _f: bool) { panic!("contended unlock in single-threaded harness") }
fn fixed_random_state() -> std::hash::RandomState { unsafe { core::mem::zeroed() } }

macro_rules! height_harness {
    ($desc:ty) => {{
        let mut db = Database::<$desc>::in_memory();
        let commit = |db: &mut Database<$desc>, n: u8, a: u32, b: u32| -> bool {
            let r = commit_changes_with_height_update(db, Changes::default(), move |_| {
                Ok(match n {
                    0 => vec![],
                    1 => vec![BlockHeight::from(a)],
                    _ => vec![BlockHeight::from(a), BlockHeight::from(b)],
                })
            });
            let ok = r.is_ok();
            core::mem::forget(r);
            ok
        };
        let reported = |db: &Database<$desc>| -> Option<u32> { (*db.stage.height.lock()).map(|h| *h) };
        let stored = |db: &Database<$desc>| -> Option<u32> { db.latest_height_from_metadata().unwrap().map(|h| *h) };
        // arbitrary previous height: none, or established by one earlier commit
        let prev_some: bool = kani::any();
        let prev: u32 = kani::any();
        if prev_some {
            let ok0 = commit(&mut db, 1, prev, 0);
            kani::assert(ok0, "[C09.db-height.commit.first-height-accepted-into-empty-database]");
        }
        kani::assert(reported(&db) == (if prev_some { Some(prev) } else { None }), "[C09.db-height.commit.reported-height-is-first-commit]");
        let n: u8 = kani::any();
        kani::assume(n <= 2);
        let a: u32 = kani::any();
        let b: u32 = kani::any();
        let ok = commit(&mut db, n, a, b);
        let allowed = commit_allowed(prev_some, prev, n, a);
        kani::cover!(ok && prev_some, "[C09.db-height.commit.cover-linked-commit]");
        kani::cover!(!ok && prev_some && n == 1, "[C09.db-height.commit.cover-unlinked-rejected]");
        kani::assert(ok == allowed, "[C09.db-height.commit.accepted-iff-single-height-linked-to-previous]");
        let expect = if ok && n == 1 { Some(a) } else if prev_some { Some(prev) } else { None };
        kani::assert(reported(&db) == expect, "[C09.db-height.commit.reported-height-is-last-committed-and-unchanged-on-failure]");
        kani::assert(stored(&db) == expect, "[C09.db-height.commit.stored-metadata-height-equals-reported-height]");
        core::mem::forget(db);
    }};
}

// The function is generic over the database description; the quick tier proves it for the gas-price database
// (4 columns, BlockHeight heights - the same height type as the on-chain database), the thorough tier for OnChain.
//@ harness kind=proof tier=quick timeout=1800 extra="--default-unwind 8"
#[kani::proof]
#[kani::stub(parking_lot::RawMutex::lock_slow, lock_slow_stub)]
#[kani::stub(parking_lot::RawMutex::unlock_slow, unlock_slow_stub)]
#[kani::stub(std::hash::RandomState::new, fixed_random_state)]
fn c09_commit_height_gas_price_db() {
    height_harness!(GasPriceDatabase)
}

//@ harness kind=proof tier=thorough timeout=7200 extra="--default-unwind 45"
#[kani::proof]
#[kani::stub(parking_lot::RawMutex::lock_slow, lock_slow_stub)]
#[kani::stub(parking_lot::RawMutex::unlock_slow, unlock_slow_stub)]
#[kani::stub(std::hash::RandomState::new, fixed_random_state)]
fn c09_commit_height_on_chain_db() {
    height_harness!(OnChain)
}
