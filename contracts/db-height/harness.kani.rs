// Contract harness for commit_changes_with_height_update (real code, generic instance GasPriceDatabase / OnChain).
// The storage engine behind the database (`Arc<dyn TransactableStorage>`) is a recording mock: what is proved is the
// decision of the function and exactly what it hands to the engine. (An earlier version ran the real MemoryStore
// underneath; CBMC did not finish in 30 min - kept as harness.memorystore.attempt.rs.txt, not run.)
use super::*;
use crate::database::database_description::{on_chain::OnChain, gas_price::GasPriceDatabase};
use fuel_core_storage::{iter::{BoxedIter, IntoBoxedIter, IterDirection, IterableStore}, kv_store::{KVItem, KeyItem, KeyValueInspect, StorageColumn, Value, WriteOperation}};
use crate::state::TransactableStorage;
//@ include pred.rs

fn lock_slow_stub(_m: &parking_lot::RawMutex, _t: Option<std::time::Instant>) -> bool { panic!("contended lock in single-threaded harness") }
fn unlock_slow_stub(_m: &parking_lot::RawMutex, _f: bool) { panic!("contended unlock in single-threaded harness") }
fn fixed_random_state() -> std::hash::RandomState { unsafe { core::mem::zeroed() } }

static mut G_CALLS: u32 = 0;
static mut G_HEIGHT: Option<u32> = None;     // the height handed to the engine
static mut G_LIST_LEN: usize = 0;            // number of change sets handed to the engine
static mut G_META_WRITES: u32 = 0;           // metadata inserts found in the last change set
static mut G_META_HEIGHT: Option<u32> = None; // height recorded in that metadata
static mut G_FAIL: bool = false;             // engine answers Err
static mut G_LOCK_HELD: bool = false;        // reported-height lock held while the engine commits

struct MockEngine<D>(core::marker::PhantomData<D>);
impl<D> core::fmt::Debug for MockEngine<D> { fn fmt(&self, _f: &mut core::fmt::Formatter<'_>) -> core::fmt::Result { Ok(()) } }
impl<D: DatabaseDescription> KeyValueInspect for MockEngine<D> {
    type Column = D::Column;
    // the engine holds no metadata yet (first commit writes it)
    fn get(&self, _key: &[u8], _column: Self::Column) -> StorageResult<Option<Value>> { Ok(None) }
}
impl<D: DatabaseDescription> IterableStore for MockEngine<D> {
    fn iter_store(&self, _c: Self::Column, _p: Option<&[u8]>, _s: Option<&[u8]>, _d: IterDirection) -> BoxedIter<'_, KVItem> { core::iter::empty().into_boxed() }
    fn iter_store_keys(&self, _c: Self::Column, _p: Option<&[u8]>, _s: Option<&[u8]>, _d: IterDirection) -> BoxedIter<'_, KeyItem> { core::iter::empty().into_boxed() }
}
impl<D> TransactableStorage<D::Height> for MockEngine<D>
where D: DatabaseDescription<Height = BlockHeight>
{
    fn commit_changes(&self, height: Option<D::Height>, changes: StorageChanges) -> StorageResult<()> {
        unsafe {
            G_CALLS += 1;
            G_HEIGHT = height.map(|h| *h);
            let last = match &changes {
                StorageChanges::Changes(c) => { G_LIST_LEN = 1; Some(c) }
                StorageChanges::ChangesList(l) => { G_LIST_LEN = l.len(); l.last() }
            };
            if G_LIST_LEN == 2 {
                if let Some(c) = last {
                    for (col, tree) in c.iter() {
                        if *col == D::metadata_column().id() {
                            for (_k, op) in tree.iter() {
                                if let WriteOperation::Insert(v) = op {
                                    G_META_WRITES += 1;
                                    let m: core::result::Result<DatabaseMetadata<BlockHeight>, postcard::Error> = postcard::from_bytes(v.as_ref());
                                    if let Ok(ref m) = m { G_META_HEIGHT = Some(**m.height()); }
                                    core::mem::forget(m);
                                }
                            }
                        }
                    }
                }
            }
            core::mem::forget(changes);
            if G_FAIL { Err(fuel_core_storage::Error::NotFound("mock", "mock")) } else { Ok(()) }
        }
    }
    fn view_at_height(&self, _h: &D::Height) -> StorageResult<KeyValueView<D::Column, D::Height>> { Err(fuel_core_storage::Error::NotFound("mock", "mock")) }
    fn latest_view(&self) -> StorageResult<IterableKeyValueView<D::Column, D::Height>> { Err(fuel_core_storage::Error::NotFound("mock", "mock")) }
    fn rollback_block_to(&self, _h: &D::Height) -> StorageResult<()> { Ok(()) }
}

macro_rules! height_harness {
    ($desc:ty) => {{
        // arbitrary previous (reported) height
        let prev_some: bool = kani::any();
        let prev: u32 = kani::any();
        let engine: Arc<MockEngine<$desc>> = Arc::new(MockEngine(core::marker::PhantomData));
        let mut db: Database<$desc> = Database::from_storage_and_metadata(
            DataSource::new(engine, RegularStage { height: SharedMutex::new(if prev_some { Some(BlockHeight::from(prev)) } else { None }) }),
            Some(Empty::default()),
        );
        unsafe { G_FAIL = kani::any(); }
        let n: u8 = kani::any();
        kani::assume(n <= 2);
        let a: u32 = kani::any();
        let b: u32 = kani::any();
        let r = commit_changes_with_height_update(&mut db, Changes::default(), move |_| {
            Ok(match n {
                0 => vec![],
                1 => vec![BlockHeight::from(a)],
                _ => vec![BlockHeight::from(a), BlockHeight::from(b)],
            })
        });
        let ok = r.is_ok();
        core::mem::forget(r);
        let reported: Option<u32> = (*db.stage.height.lock()).map(|h| *h);
        let (calls, eng_height, list_len, meta_writes, meta_height, fail) = unsafe { (G_CALLS, G_HEIGHT, G_LIST_LEN, G_META_WRITES, G_META_HEIGHT, G_FAIL) };
        let allowed = commit_allowed(prev_some, prev, n, a);
        kani::cover!(ok && prev_some, "[C09.db-height.commit.cover-linked-commit]");
        kani::cover!(!ok && prev_some && n == 1 && !fail, "[C09.db-height.commit.cover-unlinked-rejected]");
        kani::cover!(!ok && allowed && fail, "[C09.db-height.commit.cover-engine-failure]");
        // accepted exactly when it carries no height into a height-less database, a first height, or the successor of the previous height - and the engine took it
        kani::assert(ok == (allowed && !fail), "[C09.db-height.commit.accepted-iff-single-height-linked-to-previous]");
        // a rejected commit never reaches the storage engine; an allowed one reaches it exactly once
        kani::assert(calls == (if allowed { 1 } else { 0 }), "[C09.db-height.commit.engine-sees-only-linked-commits-once]");
        // reported height: the new height after a successful commit that carried one, otherwise unchanged
        let expect = if ok && n == 1 { Some(a) } else if prev_some { Some(prev) } else { None };
        kani::assert(reported == expect, "[C09.db-height.commit.reported-height-is-last-committed-and-unchanged-on-failure]");
        if allowed {
            // the engine is told the same height that becomes the reported one, in the same atomic batch that rewrites the metadata to that height
            kani::assert(eng_height == (if n == 1 { Some(a) } else { None }), "[C09.db-height.commit.engine-is-given-the-new-height]");
            if n == 1 {
                kani::assert(list_len == 2 && meta_writes == 1 && meta_height == Some(a), "[C09.db-height.commit.stored-metadata-height-equals-reported-height]");
            } else {
                kani::assert(list_len == 1, "[C09.db-height.commit.no-metadata-write-without-height]");
            }
        }
        core::mem::forget(db);
    }};
}

//@ harness kind=proof tier=quick timeout=900 extra="--default-unwind 8"
#[kani::proof]
#[kani::stub(parking_lot::RawMutex::lock_slow, lock_slow_stub)]
#[kani::stub(parking_lot::RawMutex::unlock_slow, unlock_slow_stub)]
#[kani::stub(std::hash::RandomState::new, fixed_random_state)]
fn c09_commit_height_gas_price_db() {
    height_harness!(GasPriceDatabase)
}

//@ harness kind=proof tier=thorough timeout=3600 extra="--default-unwind 8"
#[kani::proof]
#[kani::stub(parking_lot::RawMutex::lock_slow, lock_slow_stub)]
#[kani::stub(parking_lot::RawMutex::unlock_slow, unlock_slow_stub)]
#[kani::stub(std::hash::RandomState::new, fixed_random_state)]
fn c09_commit_height_on_chain_db() {
    height_harness!(OnChain)
}
