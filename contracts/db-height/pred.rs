// Shared predicate text. Decision of one commit on the height chain, as the property states it:
//   prev: the height reported before the commit (None = database not started yet)
//   n_new: how many distinct new heights the batch carries (0, 1, >= 2), `new` the height if exactly one
pub fn commit_allowed(prev_some: bool, prev: u32, n_new: u8, new: u32) -> bool {
    n_new <= 1
        && (!prev_some || (n_new == 1 && prev < u32::MAX && new == (prev + 1) as u32))
}
