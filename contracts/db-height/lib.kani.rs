// Scratch crate generated on every run. Pasted from /repo's current working tree (header and body byte for byte):
//   fuel-core database.rs                       : commit_changes_with_height_update, update_metadata
//   fuel-core database/database_description.rs  : trait DatabaseHeight, impl DatabaseHeight for BlockHeight / DaBlockHeight,
//                                                 enum DatabaseMetadata, impl DatabaseMetadata
//   fuel-core-storage transactional.rs          : enum StorageChanges, impl From<Changes> for StorageChanges
// Everything those texts CALL is replaced by its contract in the form of a recording stand-in (listed in unit.toml):
// the storage transaction over the metadata table, the storage engine's commit_changes, the reported-height mutex.
#![allow(unused)]
use core::cell::{Cell, RefCell, RefMut};
use core::fmt::Debug;
use core::marker::PhantomData;
use std::borrow::Cow;

// ---- stand-ins -------------------------------------------------------------------------------------------------------
#[derive(Clone, Copy, Debug, Default, PartialEq, Eq, PartialOrd, Ord)]
pub struct BlockHeight(pub u32);
impl BlockHeight {
    pub fn succ(self) -> Option<Self> { self.0.checked_add(1).map(BlockHeight) }
    pub fn pred(self) -> Option<Self> { self.0.checked_sub(1).map(BlockHeight) }
}
impl From<BlockHeight> for u32 { fn from(h: BlockHeight) -> u32 { h.0 } }
#[derive(Clone, Copy, Debug, Default, PartialEq, Eq, PartialOrd, Ord)]
pub struct DaBlockHeight(pub u64);
impl From<u64> for DaBlockHeight { fn from(h: u64) -> Self { DaBlockHeight(h) } }

/// opaque set of indexation kinds: only its identity matters to the code under contract
#[derive(Clone, Debug, PartialEq, Eq)]
pub struct HashSet<T>(pub u8, pub PhantomData<T>);
impl<T> HashSet<T> { pub fn contains(&self, _k: &T) -> bool { self.0 & 1 == 1 } }
#[derive(Clone, Copy, Debug, PartialEq, Eq)]
pub struct IndexationKind;
pub const FRESH_INDEXATION: u8 = 77;
pub fn indexation_availability<D: DatabaseDescription>(_m: Option<DatabaseMetadata<D::Height>>) -> HashSet<IndexationKind> { HashSet(FRESH_INDEXATION, PhantomData) }

pub trait DatabaseDescription: 'static + Copy + Debug {
    type Column;
    type Height: DatabaseHeight;
    fn version() -> u32;
}

#[derive(Debug)]
pub enum DatabaseError {
    MultipleHeightsInCommit { heights: Vec<u64> },
    FailedToAdvanceHeight,
    HeightsAreNotLinked { prev_height: u64, new_height: u64 },
    NewHeightIsNotSet { prev_height: u64 },
}
#[derive(Debug)]
pub enum StorageError { Database(DatabaseError), Engine, Lookup, MetadataRead, MetadataWrite }
impl From<DatabaseError> for StorageError { fn from(e: DatabaseError) -> Self { StorageError::Database(e) } }
pub type StorageResult<T> = Result<T, StorageError>;

/// what one batch of changes contains, as far as this function can tell: user data (opaque id) and/or a metadata write
#[derive(Debug, Default, Clone, PartialEq)]
pub struct Changes { pub user_data: u8, pub metadata_write: Option<(bool, u32, u64, u8)> } // (is_v2, version, height, indexation id)
pub struct ChangesIterator<'a, C>(pub &'a StorageChanges, PhantomData<C>);
impl<'a, C> ChangesIterator<'a, C> { pub fn new(c: &'a StorageChanges) -> Self { ChangesIterator(c, PhantomData) } }

pub struct SharedMutex<T>(pub RefCell<T>);
impl<T> SharedMutex<T> { pub fn lock(&self) -> RefMut<'_, T> { self.0.borrow_mut() } }
pub struct RegularStage<D: DatabaseDescription> { pub height: SharedMutex<Option<D::Height>> }

/// the storage engine behind the database: records what it is handed and answers Ok / Err as the harness chose
pub struct Engine<D: DatabaseDescription> {
    pub fail: bool,
    pub calls: Cell<u32>,
    pub got_height: Cell<Option<u64>>,
    pub got: RefCell<[Option<Changes>; 3]>,
    pub got_len: Cell<usize>,
    pub lock_held_during_commit: Cell<bool>,
    pub stored_metadata: Option<DatabaseMetadata<D::Height>>,
    pub metadata_read_fails: bool,
    pub metadata_write_fails: bool,
    pub height_cell: *const SharedMutex<Option<D::Height>>,
}
impl<D: DatabaseDescription> Engine<D> {
    fn record(&self, c: Changes) {
        let k = self.got_len.get();
        if k < 3 { self.got.borrow_mut()[k] = Some(c); }
        self.got_len.set(k + 1);
    }
    pub fn commit_changes(&self, height: Option<D::Height>, changes: StorageChanges) -> StorageResult<()> {
        self.calls.set(self.calls.get() + 1);
        self.got_height.set(height.map(|h| h.as_u64()));
        // the reported height must not be observable in between: the mutex is held while the engine commits
        let held = unsafe { (*self.height_cell).0.try_borrow_mut().is_err() };
        self.lock_held_during_commit.set(held);
        match changes {
            StorageChanges::Changes(c) => self.record(c),
            StorageChanges::ChangesList(l) => { for c in l { self.record(c); } }
        }
        if self.fail { Err(StorageError::Engine) } else { Ok(()) }
    }
}
pub struct Database<D: DatabaseDescription> { pub stage: RegularStage<D>, pub data: Engine<D> }

pub struct MetadataTable<D>(PhantomData<D>);
pub trait Mappable { type Key; type Value; type OwnedValue: Clone; }
impl<D: DatabaseDescription> Mappable for MetadataTable<D> { type Key = (); type Value = DatabaseMetadata<D::Height>; type OwnedValue = DatabaseMetadata<D::Height>; }
pub enum ConflictPolicy { Fail, Overwrite }
pub struct StorageTransaction<S> { pub storage: S, pub changes: Changes, pub policy_overwrite: bool }
impl<S> StorageTransaction<S> {
    pub fn transaction(storage: S, policy: ConflictPolicy, changes: Changes) -> Self {
        StorageTransaction { storage, changes, policy_overwrite: matches!(policy, ConflictPolicy::Overwrite) }
    }
    pub fn into_changes(self) -> Changes { self.changes }
    pub fn storage_as_mut<T>(&mut self) -> StorageMut<'_, Self, T> { StorageMut(self, PhantomData) }
}
pub trait StorageMutate<T: Mappable> {
    type Error;
    fn get_(&self, key: &T::Key) -> Result<Option<Cow<'_, T::OwnedValue>>, Self::Error>;
    fn insert_(&mut self, key: &T::Key, value: &T::Value) -> Result<(), Self::Error>;
}
pub struct StorageMut<'a, S, T>(&'a mut S, PhantomData<T>);
impl<'a, S: StorageMutate<T>, T: Mappable> StorageMut<'a, S, T> {
    pub fn get(self, key: &T::Key) -> Result<Option<Cow<'a, T::OwnedValue>>, S::Error> { self.0.get_(key) }
    pub fn insert(self, key: &T::Key, value: &T::Value) -> Result<(), S::Error> { self.0.insert_(key, value) }
}
/// contract of the metadata table inside a storage transaction over the database: `get` reads through to what the
/// engine holds (nothing was written in this fresh transaction), `insert` records the value in the transaction's changes
impl<'a, 'b, D: DatabaseDescription> StorageMutate<MetadataTable<D>> for StorageTransaction<&'a &'b mut Database<D>> {
    type Error = StorageError;
    fn get_(&self, _key: &()) -> Result<Option<Cow<'_, DatabaseMetadata<D::Height>>>, StorageError> {
        if self.storage.data.metadata_read_fails { return Err(StorageError::MetadataRead) }
        Ok(self.storage.data.stored_metadata.as_ref().map(Cow::Borrowed))
    }
    fn insert_(&mut self, _key: &(), value: &DatabaseMetadata<D::Height>) -> Result<(), StorageError> {
        if self.storage.data.metadata_write_fails { return Err(StorageError::MetadataWrite) }
        self.changes.metadata_write = Some(match value {
            DatabaseMetadata::V1 { version, height } => (false, *version, height.as_u64(), 0),
            DatabaseMetadata::V2 { version, height, indexation_availability } => (true, *version, height.as_u64(), indexation_availability.0),
        });
        Ok(())
    }
}

// ---- extracted ---------------------------------------------------------------------------------------------------------
//@ extract crates/fuel-core/src/database/database_description.rs trait DatabaseHeight
//@ end
//@ extract crates/fuel-core/src/database/database_description.rs impl DatabaseHeight for BlockHeight
//@ end
//@ extract crates/fuel-core/src/database/database_description.rs impl DatabaseHeight for DaBlockHeight
//@ end
#[derive(Clone, Debug)]
//@ extract crates/fuel-core/src/database/database_description.rs enum DatabaseMetadata
//@ end
//@ extract crates/fuel-core/src/database/database_description.rs impl DatabaseMetadata
//@ end
//@ extract crates/storage/src/transactional.rs enum StorageChanges
//@ end
//@ extract crates/storage/src/transactional.rs impl From for StorageChanges
//@ end
//@ extract crates/fuel-core/src/database.rs commit_changes_with_height_update
//@ end
//@ extract crates/fuel-core/src/database.rs update_metadata
//@ end

// =====================================================================================================================
//@ include pred.rs

#[derive(Clone, Copy, Debug)] pub struct OnChainLike;
impl DatabaseDescription for OnChainLike { type Column = u32; type Height = BlockHeight; fn version() -> u32 { 3 } }
#[derive(Clone, Copy, Debug)] pub struct RelayerLike;
impl DatabaseDescription for RelayerLike { type Column = u32; type Height = DaBlockHeight; fn version() -> u32 { 5 } }

#[cfg(kani)]
fn any_stored<H: DatabaseHeight>(mk: fn(u64) -> H) -> Option<DatabaseMetadata<H>> {
    let k: u8 = kani::any();
    kani::assume(k <= 2);
    let version: u32 = kani::any();
    let h: u64 = kani::any();
    match k {
        0 => None,
        1 => Some(DatabaseMetadata::V1 { version, height: mk(h) }),
        _ => Some(DatabaseMetadata::V2 { version, height: mk(h), indexation_availability: HashSet(kani::any(), PhantomData) }),
    }
}

// One commit against every (reported height, carried heights, stored metadata, engine answer): u32 block heights.
#[cfg(kani)]
fn commit_case(n: u8, as_list: bool) {
    let prev_some: bool = kani::any();
    let prev: u32 = kani::any();
    let a: u32 = kani::any();
    let b: u32 = kani::any();
    let lookup_fails: bool = kani::any();
    let user: u8 = kani::any();
    let stage = RegularStage::<OnChainLike> { height: SharedMutex(RefCell::new(if prev_some { Some(BlockHeight(prev)) } else { None })) };
    let mut db = Database::<OnChainLike> {
        stage,
        data: Engine { fail: kani::any(), calls: Cell::new(0), got_height: Cell::new(None), got: RefCell::new([None, None, None]), got_len: Cell::new(0),
                       lock_held_during_commit: Cell::new(false), stored_metadata: any_stored(|h| BlockHeight(h as u32)),
                       metadata_read_fails: kani::any(), metadata_write_fails: kani::any(), height_cell: core::ptr::null() },
    };
    db.data.height_cell = &db.stage.height as *const _;
    let stored_kind: u8 = match &db.data.stored_metadata { None => 0, Some(DatabaseMetadata::V1 { .. }) => 1, Some(DatabaseMetadata::V2 { .. }) => 2 };
    let stored_idx: u8 = match &db.data.stored_metadata { Some(DatabaseMetadata::V2 { indexation_availability, .. }) => indexation_availability.0, _ => 0 };
    let (fail, rfail, wfail) = (db.data.fail, db.data.metadata_read_fails, db.data.metadata_write_fails);
    let changes: StorageChanges = if as_list { StorageChanges::ChangesList(vec![Changes { user_data: user, metadata_write: None }]) } else { StorageChanges::Changes(Changes { user_data: user, metadata_write: None }) };
    let r = commit_changes_with_height_update(&mut db, changes, move |_| {
        if lookup_fails { return Err(StorageError::Lookup) }
        Ok(match n { 0 => vec![], 1 => vec![BlockHeight(a)], _ => vec![BlockHeight(a), BlockHeight(b)] })
    });
    let ok = r.is_ok();
    let reported: Option<u32> = (*db.stage.height.lock()).map(|h| h.0);
    let calls = db.data.calls.get();
    let allowed = !lookup_fails && commit_allowed(prev_some, prev, n, a);
    let meta_ok = n != 1 || (!rfail && !wfail);
    if n == 1 {
        kani::cover!(ok && prev_some, "[C09.db-height.commit.cover-linked-commit]");
        kani::cover!(!ok && prev_some && !fail && !lookup_fails && !rfail && !wfail, "[C09.db-height.commit.cover-unlinked-rejected]");
        kani::cover!(!ok && allowed && meta_ok && fail, "[C09.db-height.commit.cover-engine-failure]");
    }
    // accepted exactly when the batch carries no height into a database without height, a first height, or the successor of
    // the reported height - and every storage operation it needed succeeded
    kani::assert(ok == (allowed && meta_ok && !fail), "[C09.db-height.commit.accepted-iff-single-height-linked-to-previous]");
    // a rejected commit never reaches the storage engine; an allowed one reaches it exactly once
    kani::assert(calls == (if allowed && meta_ok { 1 } else { 0 }), "[C09.db-height.commit.engine-sees-only-linked-commits-once]");
    // reported height: the new height after a successful commit that carried one, otherwise unchanged
    let expect = if ok && n == 1 { Some(a) } else if prev_some { Some(prev) } else { None };
    kani::assert(reported == expect, "[C09.db-height.commit.reported-height-is-last-committed-and-unchanged-on-failure]");
    if calls == 1 {
        let got = db.data.got.borrow();
        kani::assert(db.data.lock_held_during_commit.get(), "[C09.db-height.commit.reported-height-locked-while-engine-commits]");
        kani::assert(db.data.got_height.get() == (if n == 1 { Some(a as u64) } else { None }), "[C09.db-height.commit.engine-is-given-the-new-height]");
        // the caller's data is passed on first and untouched
        let got_len = db.data.got_len.get();
        kani::assert(got_len >= 1 && got[0] == Some(Changes { user_data: user, metadata_write: None }), "[C09.db-height.commit.callers-changes-passed-on-unmodified]");
        if n == 1 {
            // ... followed, in the same atomic batch, by exactly one metadata record carrying the new height
            kani::assert(got_len == 2 && got[1].as_ref().map_or(false, |c| c.user_data == 0), "[C09.db-height.commit.stored-metadata-height-equals-reported-height]");
            match got[1].as_ref().and_then(|c| c.metadata_write) {
                Some((is_v2, version, height, idx)) => {
                    kani::assert(height == a as u64 && version == OnChainLike::version(), "[C09.db-height.commit.stored-metadata-height-equals-reported-height]");
                    kani::assert(is_v2 == (stored_kind != 1) && idx == (if stored_kind == 2 { stored_idx } else if stored_kind == 0 { FRESH_INDEXATION } else { 0 }), "[C09.db-height.commit.metadata-format-and-indexation-flags-preserved]");
                }
                None => kani::assert(false, "[C09.db-height.commit.stored-metadata-height-equals-reported-height]"),
            }
        } else {
            kani::assert(got_len == 1, "[C09.db-height.commit.no-metadata-write-without-height]");
        }
    }
}

// the batch carries no height / one height / two heights; the caller hands over a single change set or a list
//@ harness kind=proof tier=quick timeout=600 extra="--default-unwind 4"
#[cfg(kani)]
#[kani::proof]
fn c09_commit_no_height() { commit_case(0, kani::any()); }
//@ harness kind=proof tier=quick timeout=600 extra="--default-unwind 4"
#[cfg(kani)]
#[kani::proof]
fn c09_commit_one_height_single() { commit_case(1, false); }
//@ harness kind=proof tier=quick timeout=600 extra="--default-unwind 4"
#[cfg(kani)]
#[kani::proof]
fn c09_commit_one_height_list() { commit_case(1, true); }
//@ harness kind=proof tier=quick timeout=600 extra="--default-unwind 4"
#[cfg(kani)]
#[kani::proof]
fn c09_commit_two_heights() { commit_case(2, kani::any()); }

// Same function, u64 DA heights (relayer database): the link check at the top of the range.
//@ harness kind=proof tier=quick timeout=600 extra="--default-unwind 4"
#[cfg(kani)]
#[kani::proof]
fn c09_commit_da_heights() {
    let prev: u64 = kani::any();
    let a: u64 = kani::any();
    let stage = RegularStage::<RelayerLike> { height: SharedMutex(RefCell::new(Some(DaBlockHeight(prev)))) };
    let mut db = Database::<RelayerLike> {
        stage,
        data: Engine { fail: false, calls: Cell::new(0), got_height: Cell::new(None), got: RefCell::new([None, None, None]), got_len: Cell::new(0),
                       lock_held_during_commit: Cell::new(false), stored_metadata: None,
                       metadata_read_fails: false, metadata_write_fails: false, height_cell: core::ptr::null() },
    };
    db.data.height_cell = &db.stage.height as *const _;
    let r = commit_changes_with_height_update(&mut db, Changes::default(), move |_| Ok(vec![DaBlockHeight(a)]));
    let ok = r.is_ok();
    kani::cover!(ok, "[C09.db-height.commit-da.cover-accepted]");
    kani::assert(ok == (prev < u64::MAX && a == prev + 1), "[C09.db-height.commit-da.accepted-iff-successor-of-reported-height]");
    let reported = (*db.stage.height.lock()).map(|h| h.0);
    kani::assert(reported == Some(if ok { a } else { prev }), "[C09.db-height.commit-da.reported-height-is-last-committed]");
}

// Vacuity canary: "no commit is ever accepted" must FAIL.
//@ harness kind=canary tier=quick expect=C09.db-height.canary.never-accepts timeout=600 extra="--default-unwind 4"
#[cfg(kani)]
#[kani::proof]
fn c09_canary() {
    let prev: u64 = kani::any();
    let a: u64 = kani::any();
    let stage = RegularStage::<RelayerLike> { height: SharedMutex(RefCell::new(Some(DaBlockHeight(prev)))) };
    let mut db = Database::<RelayerLike> {
        stage,
        data: Engine { fail: false, calls: Cell::new(0), got_height: Cell::new(None), got: RefCell::new([None, None, None]), got_len: Cell::new(0),
                       lock_held_during_commit: Cell::new(false), stored_metadata: None,
                       metadata_read_fails: false, metadata_write_fails: false, height_cell: core::ptr::null() },
    };
    db.data.height_cell = &db.stage.height as *const _;
    let r = commit_changes_with_height_update(&mut db, Changes::default(), move |_| Ok(vec![DaBlockHeight(a)]));
    kani::assert(r.is_err(), "[C09.db-height.canary.never-accepts]");
}
