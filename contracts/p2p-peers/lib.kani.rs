// Scratch crate generated on every run. Pasted from /repo's current working tree (header and body byte for byte):
//   p2p peer_manager.rs : struct PeerManager, PeerManager::{is_reserved, handle_gossip_score_update, handle_peer_connected,
//                         batch_update_score_with_decay, update_app_score, handle_peer_disconnect, handle_initial_connection,
//                         send_reserved_peers_update}, struct ConnectionState, impl ConnectionState (minus `new`, which
//                         builds the real SeqLock), struct ScoreConfig + impls, trait Punisher, const MIN_GOSSIPSUB_SCORE_BEFORE_BAN
//   p2p gossipsub/config.rs : const GRAYLIST_THRESHOLD
//   fuel-core-types services/p2p/peer_reputation.rs : the four score constants
// Stand-ins (trusted, listed in unit.toml):
//   * std HashMap / HashSet are replaced by their CONTRACT (set semantics) in the form of an abstraction that is exact for
//     one probed key and keeps only the size for all other keys - so the proofs hold for tables of ANY size;
//   * PeerId is an opaque Copy + Eq id; PeerInfo keeps only the score; SeqLockWriter::write applies the closure to the
//     value (single-threaded); tokio broadcast Sender records what it was sent; tracing macros are no-ops.
#![allow(unused)]
use core::cell::Cell;

macro_rules! info { ($($t:tt)*) => {{}} }
macro_rules! debug { ($($t:tt)*) => {{}} }

#[derive(Clone, Copy, PartialEq, Eq, Debug)]
pub struct PeerId(pub u64);
pub type AppScore = f64;

//@ extract crates/types/src/services/p2p/peer_reputation.rs const MIN_APP_SCORE
//@ end
//@ extract crates/types/src/services/p2p/peer_reputation.rs const DEFAULT_APP_SCORE
//@ end
//@ extract crates/types/src/services/p2p/peer_reputation.rs const MAX_APP_SCORE
//@ end
//@ extract crates/types/src/services/p2p/peer_reputation.rs const DECAY_APP_SCORE
//@ end
//@ extract crates/services/p2p/src/gossipsub/config.rs const GRAYLIST_THRESHOLD
//@ end
//@ extract crates/services/p2p/src/peer_manager.rs const MIN_GOSSIPSUB_SCORE_BEFORE_BAN
//@ end

#[derive(Debug, Clone)]
pub struct PeerInfo { pub score: AppScore }
impl PeerInfo { pub fn new(_heartbeat_avg_window: u32) -> Self { Self { score: DEFAULT_APP_SCORE } } }

/// Contract of a hash map with set semantics, exact for the key `probe`, size-only for every other key.
#[derive(Debug)]
pub struct HashMap<K, V> { pub len: usize, pub probe: K, pub slot: Option<V> }
impl<K: PartialEq + Copy, V> HashMap<K, V> {
    pub fn len(&self) -> usize { self.len }
    pub fn contains_key(&self, k: &K) -> bool { if *k == self.probe { self.slot.is_some() } else { nondet_bool() } }
    pub fn insert(&mut self, k: K, v: V) -> Option<V> {
        if k == self.probe {
            let old = self.slot.replace(v);
            if old.is_none() { self.len += 1; }
            old
        } else if nondet_bool() { self.len += 1; None } else { None }
    }
    pub fn remove(&mut self, k: &K) -> Option<V> {
        if *k == self.probe {
            let old = self.slot.take();
            if old.is_some() { self.len -= 1; }
            old
        } else { if nondet_bool() && self.len > (self.slot.is_some() as usize) { self.len -= 1; } None }
    }
    pub fn get_mut(&mut self, k: &K) -> Option<&mut V> { if *k == self.probe { self.slot.as_mut() } else { None } }
    pub fn values_mut(&mut self) -> core::option::IterMut<'_, V> { self.slot.iter_mut() }
}
#[derive(Debug)]
pub struct HashSet<K> { pub probe: K, pub has: bool }
impl<K: PartialEq + Copy> HashSet<K> {
    pub fn contains(&self, k: &K) -> bool { if *k == self.probe { self.has } else { nondet_bool() } }
}
#[cfg(kani)] fn nondet_bool() -> bool { kani::any() }
#[cfg(not(kani))] fn nondet_bool() -> bool { false }

#[derive(Debug)]
pub struct SeqLockWriter<T: Copy> { pub data: Cell<T>, pub writes: Cell<u32> }
impl<T: Copy> SeqLockWriter<T> {
    pub fn write<F: FnOnce(&mut T)>(&self, f: F) { let mut d = self.data.get(); f(&mut d); self.data.set(d); self.writes.set(self.writes.get() + 1); }
}
pub mod tokio { pub mod sync { pub mod broadcast {
    #[derive(Debug)]
    pub struct Sender<T: Copy> { pub last: core::cell::Cell<Option<T>> }
    impl<T: Copy> Sender<T> { pub fn send(&self, v: T) -> Result<usize, ()> { self.last.set(Some(v)); Ok(1) } }
}}}

#[derive(Debug)]
//@ extract crates/services/p2p/src/peer_manager.rs struct PeerManager
//@ end

impl PeerManager {
//@ extract crates/services/p2p/src/peer_manager.rs PeerManager::is_reserved
//@ end
//@ extract crates/services/p2p/src/peer_manager.rs PeerManager::handle_gossip_score_update
//@ end
//@ extract crates/services/p2p/src/peer_manager.rs PeerManager::handle_peer_connected
//@ end
//@ extract crates/services/p2p/src/peer_manager.rs PeerManager::batch_update_score_with_decay
//@ end
//@ extract crates/services/p2p/src/peer_manager.rs PeerManager::update_app_score
//@ end
//@ extract crates/services/p2p/src/peer_manager.rs PeerManager::handle_peer_disconnect
//@ end
//@ extract crates/services/p2p/src/peer_manager.rs PeerManager::handle_initial_connection
//@ end
//@ extract crates/services/p2p/src/peer_manager.rs PeerManager::send_reserved_peers_update
//@ end
}

//@ extract crates/services/p2p/src/peer_manager.rs log_missing_peer
//@ end

#[derive(Debug, Default, Clone, Copy)]
//@ extract crates/services/p2p/src/peer_manager.rs struct ConnectionState
//@ end

impl ConnectionState {
//@ extract crates/services/p2p/src/peer_manager.rs ConnectionState::available_slot
//@ end
//@ extract crates/services/p2p/src/peer_manager.rs ConnectionState::allow_new_peers
//@ end
//@ extract crates/services/p2p/src/peer_manager.rs ConnectionState::deny_new_peers
//@ end
}

#[derive(Clone, Debug, Copy)]
//@ extract crates/services/p2p/src/peer_manager.rs struct ScoreConfig
//@ end
//@ extract crates/services/p2p/src/peer_manager.rs impl Default for ScoreConfig
//@ end
//@ extract crates/services/p2p/src/peer_manager.rs impl ScoreConfig
//@ end
//@ extract crates/services/p2p/src/peer_manager.rs trait Punisher
//@ end

// =====================================================================================================================
//@ include pred.rs

#[cfg(kani)]
struct Bans { n: u32, who: Option<PeerId> }
#[cfg(kani)]
impl Punisher for Bans { fn ban_peer(&mut self, peer_id: PeerId) { self.n += 1; self.who = Some(peer_id); } }

/// An arbitrary manager state that satisfies the slot invariant, seen through the probed peer `p`.
#[cfg(kani)]
fn any_manager(p: PeerId) -> (PeerManager, bool) {
    let reserved: bool = kani::any();
    let n: usize = kani::any();
    let max: usize = kani::any();
    kani::assume(n < usize::MAX); // a table cannot hold usize::MAX entries
    let connected: bool = kani::any();
    let score: f64 = kani::any();
    kani::assume(score.is_finite() && score <= MAX_APP_SCORE);
    // a reserved peer is never in the non-reserved table; a connected peer is counted
    let in_non_reserved = connected && !reserved;
    kani::assume(!in_non_reserved || n >= 1);
    let allowed: bool = kani::any();
    kani::assume(slots_ok(n as u64, max as u64, allowed));
    let r_n: usize = kani::any();
    let in_reserved = connected && reserved;
    kani::assume(!in_reserved || r_n >= 1);
    kani::assume(r_n < usize::MAX);
    let m = PeerManager {
        score_config: ScoreConfig::default(),
        non_reserved_connected_peers: HashMap { len: n, probe: p, slot: if in_non_reserved { Some(PeerInfo { score }) } else { None } },
        reserved_connected_peers: HashMap { len: r_n, probe: p, slot: if in_reserved { Some(PeerInfo { score: DEFAULT_APP_SCORE }) } else { None } },
        reserved_peers: HashSet { probe: p, has: reserved },
        connection_state_writer: SeqLockWriter { data: Cell::new(ConnectionState { peers_allowed: allowed }), writes: Cell::new(0) },
        max_non_reserved_peers: max,
        reserved_peers_updates: tokio::sync::broadcast::Sender { last: Cell::new(None) },
    };
    (m, reserved)
}
#[cfg(kani)]
fn allowed_of(m: &PeerManager) -> bool { m.connection_state_writer.data.get().available_slot() }
#[cfg(kani)]
fn inv(m: &PeerManager) -> bool {
    slots_ok(m.non_reserved_connected_peers.len as u64, m.max_non_reserved_peers as u64, allowed_of(m))
        && (!m.reserved_peers.has || m.non_reserved_connected_peers.slot.is_none())
}

// ---- connect: a non-reserved peer is admitted exactly when a slot is free; a reserved peer always; invariant kept
//@ harness kind=proof tier=quick timeout=600
#[cfg(kani)]
#[kani::proof]
fn c31_connect() {
    let p = PeerId(kani::any());
    let (mut m, reserved) = any_manager(p);
    let n0 = m.non_reserved_connected_peers.len;
    let max = m.max_non_reserved_peers;
    let was_in = m.non_reserved_connected_peers.slot.is_some();
    let was_in_reserved = m.reserved_connected_peers.slot.is_some();
    let rn0 = m.reserved_connected_peers.len;
    let disconnect = m.handle_peer_connected(&p);
    let n1 = m.non_reserved_connected_peers.len;
    kani::cover!(!reserved && !was_in && max >= 1 && n0 == max - 1, "[C31.p2p-peers.connect.cover-last-free-slot-taken]");
    kani::cover!(disconnect, "[C31.p2p-peers.connect.cover-refused]");
    kani::assert(inv(&m), "[C31.p2p-peers.connect.slot-invariant-preserved]");
    kani::assert(n1 <= max, "[C31.p2p-peers.connect.non-reserved-count-never-exceeds-limit]");
    kani::assert(!reserved || (!disconnect && m.reserved_connected_peers.slot.is_some() && n1 == n0), "[C31.p2p-peers.connect.reserved-peer-always-admitted-and-takes-no-slot]");
    if !reserved && !was_in {
        kani::assert(disconnect == (n0 >= max), "[C31.p2p-peers.connect.new-non-reserved-peer-admitted-exactly-when-a-slot-is-free]");
        kani::assert(disconnect || (n1 == n0 + 1 && m.non_reserved_connected_peers.slot.is_some()), "[C31.p2p-peers.connect.admitted-peer-takes-exactly-one-slot]");
        kani::assert(!disconnect || (n1 == n0 && m.non_reserved_connected_peers.slot.is_none()), "[C31.p2p-peers.connect.refused-peer-takes-no-slot]");
    }
    if !reserved && was_in {
        kani::assert(!disconnect && n1 == n0, "[C31.p2p-peers.connect.second-connection-of-a-connected-peer-changes-nothing]");
    }
    // a newly admitted peer starts with the default score; reserved-table accounting
    if !reserved && !was_in && !disconnect {
        kani::assert(m.non_reserved_connected_peers.slot.as_ref().unwrap().score == DEFAULT_APP_SCORE, "[C31.p2p-peers.connect.new-peer-starts-with-default-score]");
    }
    kani::assert(m.reserved_connected_peers.len == rn0 + ((reserved && !was_in_reserved) as usize), "[C31.p2p-peers.connect.reserved-table-grows-only-by-a-new-reserved-peer]");
}

// ---- disconnect: the slot is given back and new peers are allowed again exactly when a slot is free; invariant kept
//@ harness kind=proof tier=quick timeout=600
#[cfg(kani)]
#[kani::proof]
fn c31_disconnect() {
    let p = PeerId(kani::any());
    let (mut m, reserved) = any_manager(p);
    let n0 = m.non_reserved_connected_peers.len;
    let max = m.max_non_reserved_peers;
    let was_in = m.non_reserved_connected_peers.slot.is_some();
    let was_in_reserved = m.reserved_connected_peers.slot.is_some();
    let allowed0 = allowed_of(&m);
    let reconnect = m.handle_peer_disconnect(p);
    let n1 = m.non_reserved_connected_peers.len;
    kani::cover!(!reserved && was_in && n0 == max && max >= 1, "[C31.p2p-peers.disconnect.cover-leaves-a-full-table]");
    kani::cover!(reserved && was_in_reserved, "[C31.p2p-peers.disconnect.cover-reserved-peer-leaves]");
    kani::assert(inv(&m), "[C31.p2p-peers.disconnect.slot-invariant-preserved]");
    kani::assert(n1 == n0 - ((!reserved && was_in) as usize), "[C31.p2p-peers.disconnect.frees-exactly-the-slot-of-a-connected-non-reserved-peer]");
    kani::assert(m.non_reserved_connected_peers.slot.is_none(), "[C31.p2p-peers.disconnect.peer-is-gone-from-non-reserved-table]");
    kani::assert(reconnect == (reserved && was_in_reserved), "[C31.p2p-peers.disconnect.reconnect-requested-only-for-connected-reserved-peer]");
    kani::assert(!reserved || (n1 == n0 && allowed_of(&m) == allowed0 && m.reserved_connected_peers.slot.is_none()), "[C31.p2p-peers.disconnect.reserved-peer-does-not-touch-slot-accounting]");
    // after a non-reserved peer left, the tracker admits new peers (for any limit >= 1)
    if !reserved && was_in && max >= 1 {
        kani::assert(allowed_of(&m), "[C31.p2p-peers.disconnect.new-peers-allowed-again-after-a-slot-is-freed]");
    }
}

// ---- reputation: score never above the maximum; ban exactly when a non-reserved peer falls below the minimum; reserved peers untouched
//@ harness kind=proof tier=quick timeout=600
#[cfg(kani)]
#[kani::proof]
fn c31_update_app_score() {
    let p = PeerId(kani::any());
    let (mut m, reserved) = any_manager(p);
    let before = m.non_reserved_connected_peers.slot.as_ref().map(|i| i.score);
    let delta: f64 = kani::any();
    kani::assume(delta.is_finite()); // reports are finite constants of the reporting services
    let mut bans = Bans { n: 0, who: None };
    m.update_app_score(p, delta, "svc", &mut bans);
    let after = m.non_reserved_connected_peers.slot.as_ref().map(|i| i.score);
    kani::cover!(bans.n == 1, "[C31.p2p-peers.score.cover-ban]");
    kani::cover!(after == Some(MAX_APP_SCORE) && before != Some(MAX_APP_SCORE), "[C31.p2p-peers.score.cover-clamped-at-max]");
    match (before, after) {
        (Some(b), Some(a)) => {
            kani::assert(a <= MAX_APP_SCORE, "[C31.p2p-peers.score.never-above-maximum]");
            let sum = b + delta;
            kani::assert(sum.is_nan() || a == (if sum > MAX_APP_SCORE { MAX_APP_SCORE } else { sum }), "[C31.p2p-peers.score.is-old-plus-report-clamped-at-maximum]");
            kani::assert((bans.n == 1) == (a < MIN_APP_SCORE) && bans.n <= 1, "[C31.p2p-peers.score.banned-exactly-when-below-minimum]");
            kani::assert(bans.n == 0 || bans.who == Some(p), "[C31.p2p-peers.score.bans-the-reported-peer]");
        }
        (None, None) => kani::assert(bans.n == 0, "[C31.p2p-peers.score.unknown-or-reserved-peer-is-never-banned-by-app-score]"),
        _ => {}
    }
    kani::assert(before.is_some() == after.is_some(), "[C31.p2p-peers.score.report-does-not-connect-or-disconnect]");
    kani::assert(!reserved || bans.n == 0, "[C31.p2p-peers.score.reserved-peer-never-banned]");
    kani::assert(inv(&m), "[C31.p2p-peers.score.slot-invariant-preserved]");
}

//@ harness kind=proof tier=quick timeout=600
#[cfg(kani)]
#[kani::proof]
fn c31_gossip_score_and_decay() {
    let p = PeerId(kani::any());
    let (mut m, reserved) = any_manager(p);
    let g: f64 = kani::any();
    let mut bans = Bans { n: 0, who: None };
    m.handle_gossip_score_update(p, g, &mut bans);
    kani::cover!(bans.n == 1, "[C31.p2p-peers.gossip.cover-ban]");
    kani::assert(!reserved || bans.n == 0, "[C31.p2p-peers.gossip.reserved-peer-never-banned]");
    kani::assert((bans.n == 1) == (!reserved && g < GRAYLIST_THRESHOLD) && bans.n <= 1, "[C31.p2p-peers.gossip.non-reserved-banned-exactly-below-graylist-threshold]");
    let before = m.non_reserved_connected_peers.slot.as_ref().map(|i| i.score);
    m.batch_update_score_with_decay();
    let after = m.non_reserved_connected_peers.slot.as_ref().map(|i| i.score);
    if let (Some(b), Some(a)) = (before, after) {
        kani::assert(a <= MAX_APP_SCORE, "[C31.p2p-peers.decay.never-above-maximum]");
    }
    kani::assert(before.is_some() == after.is_some() && inv(&m), "[C31.p2p-peers.decay.slot-invariant-preserved]");
}

// Vacuity canary: "nobody is ever refused" must FAIL.
//@ harness kind=canary tier=quick expect=C31.p2p-peers.canary.never-refuses timeout=600
#[cfg(kani)]
#[kani::proof]
fn c31_canary() {
    let p = PeerId(kani::any());
    let (mut m, _r) = any_manager(p);
    let disconnect = m.handle_peer_connected(&p);
    kani::assert(!disconnect, "[C31.p2p-peers.canary.never-refuses]");
}
