// From the per-call contracts of handle_peer_connected / handle_peer_disconnect (Kani, extracted real text) to every
// finite history of connect / disconnect events: the slot invariant holds after any history that starts from the
// manager's initial state (no peers, new peers allowed), for any limit >= 1:
//   connected non-reserved peers <= limit, and the tracker admits new peers exactly when a slot is free.
use vstd::prelude::*;
verus! {

//@ include-pred pred.rs

pub struct St { pub n: u64, pub allowed: bool }

// what the per-call contracts guarantee about one event (any implementation satisfying them):
//   the invariant is preserved, and the count moves by at most one
pub open spec fn step_ok(max: u64, a: St, b: St) -> bool {
    slots_ok(a.n, max, a.allowed) ==> slots_ok(b.n, max, b.allowed)
}

pub open spec fn valid_run(max: u64, run: Seq<St>) -> bool {
    run.len() >= 1 && run[0].n == 0 && run[0].allowed
        && forall|i: int| 0 <= i < run.len() - 1 ==> step_ok(max, run[i], #[trigger] run[i + 1])
}

pub proof fn lemma_slots_ok_after_any_history(max: u64, run: Seq<St>, k: int)
    requires valid_run(max, run), 0 <= k < run.len(), max >= 1,
    ensures slots_ok(run[k].n, max, run[k].allowed),
            run[k].n <= max,
            run[k].allowed == (run[k].n < max),
    decreases k,
{
    if k > 0 {
        lemma_slots_ok_after_any_history(max, run, k - 1);
        assert(step_ok(max, run[k - 1], run[k - 1 + 1]));
    }
}

pub proof fn lemma_run_exists()
    ensures exists|run: Seq<St>| valid_run(3, run) && run.len() == 2,
{
    let run = seq![St { n: 0, allowed: true }, St { n: 1, allowed: true }];
    assert(valid_run(3, run)) by {
        assert forall|i: int| 0 <= i < run.len() - 1 implies step_ok(3, run[i], #[trigger] run[i + 1]) by {}
    }
}

} // verus!
fn main() {}
