// Shared predicate text (Rust for Kani, spec for Verus). Abstract view of the peer manager's slot accounting:
//   n: number of connected non-reserved peers, max: the configured limit, allowed: the flag the connection
//   tracker reads ("a slot is free").
pub fn slots_ok(n: u64, max: u64, allowed: bool) -> bool {
    n <= max && (max == 0 || allowed == (n < max))
}
