// Scratch crate generated on every run. Pasted from /repo's current working tree (header and body byte for byte):
//   block_aggregator_api/src/db/storage_db.rs : <StorageDB<S> as BlocksStorage>::store_block, StorageDB::get_current_height,
//                                               StorageStream::{new} and its Stream::poll_next are NOT included
//   block_aggregator_api/src/db/table.rs      : enum Mode, impl Mode
// Everything store_block calls is replaced by a recording contract (listed in unit.toml): the structured-storage read of
// LatestBlock, the write transaction (insert into Blocks / LatestBlock, commit), each of which may fail.
#![allow(unused)]
extern crate alloc;
use core::cell::{Cell, RefCell};
use core::marker::PhantomData;
use std::sync::Arc;
use anyhow::anyhow;

#[derive(Clone, Copy, Debug, PartialEq, Eq, PartialOrd, Ord)]
pub struct BlockHeight(pub u32);
impl BlockHeight { pub fn succ(self) -> Option<BlockHeight> { self.0.checked_add(1).map(BlockHeight) } }
#[derive(Debug)] pub enum Error { DB(anyhow::Error) }
pub type Result<T> = core::result::Result<T, Error>;
#[derive(Debug)] pub struct StorageError;
impl core::fmt::Display for StorageError { fn fmt(&self, f: &mut core::fmt::Formatter<'_>) -> core::fmt::Result { Ok(()) } }
impl std::error::Error for StorageError {}
pub struct Blocks; pub struct LatestBlock; pub struct Column;
pub trait KeyValueInspect { type Column; }
pub trait Modifiable {}

#[derive(Clone, Debug, PartialEq)]
//@ extract crates/services/block_aggregator_api/src/db/table.rs enum Mode
//@ end
//@ extract crates/services/block_aggregator_api/src/db/table.rs impl Mode
//@ end

/// the storage behind the aggregator database, as a recording contract
pub struct Store {
    pub latest: Option<Mode>, pub read_fails: bool,
    pub fail_at: u8,                       // which write-side operation fails: 1 = Blocks insert, 2 = LatestBlock insert, 3 = commit, 0 = none
    pub ops: RefCell<[u8; 4]>, pub n_ops: Cell<usize>,
    pub block_written: Cell<Option<(u32, usize)>>, pub latest_written: RefCell<Option<Mode>>, pub committed: Cell<u32>,
}
impl KeyValueInspect for Store { type Column = Column; }
impl Modifiable for Store {}
impl Store { fn op(&self, k: u8) { let n = self.n_ops.get(); if n < 4 { self.ops.borrow_mut()[n] = k; } self.n_ops.set(n + 1); } }
pub struct Structured<'a>(&'a Store);
pub struct LatestRef<'a>(&'a Store);
impl Store {
    pub fn as_structured_storage(&self) -> Structured<'_> { Structured(self) }
    pub fn write_transaction(&mut self) -> WriteTx<'_> { WriteTx(self) }
}
impl<'a> Structured<'a> { pub fn storage_as_ref<T>(&self) -> LatestRef<'a> { LatestRef(self.0) } }
impl<'a> LatestRef<'a> {
    pub fn get(&self, _k: &()) -> core::result::Result<Option<std::borrow::Cow<'a, Mode>>, StorageError> {
        if self.0.read_fails { return Err(StorageError) }
        Ok(self.0.latest.as_ref().map(std::borrow::Cow::Borrowed))
    }
}
pub struct WriteTx<'a>(&'a Store);
pub struct TableMut<'a, 'b, T>(&'b WriteTx<'a>, PhantomData<T>);
impl<'a> WriteTx<'a> {
    pub fn storage_as_mut<T>(&mut self) -> TableMut<'a, '_, T> { TableMut(self, PhantomData) }
    pub fn commit(self) -> core::result::Result<(), StorageError> { self.0.op(3); self.0.committed.set(self.0.committed.get() + 1); if self.0.fail_at == 3 { Err(StorageError) } else { Ok(()) } }
}
impl<'a, 'b> TableMut<'a, 'b, Blocks> {
    pub fn insert(self, h: &BlockHeight, block: &Arc<[u8]>) -> core::result::Result<(), StorageError> {
        self.0.0.op(1); self.0.0.block_written.set(Some((h.0, Arc::as_ptr(block) as *const u8 as usize)));
        if self.0.0.fail_at == 1 { Err(StorageError) } else { Ok(()) }
    }
}
impl<'a, 'b> TableMut<'a, 'b, LatestBlock> {
    pub fn insert(self, _k: &(), m: &Mode) -> core::result::Result<(), StorageError> {
        self.0.0.op(2); *self.0.0.latest_written.borrow_mut() = Some(m.clone());
        if self.0.0.fail_at == 2 { Err(StorageError) } else { Ok(()) }
    }
}

pub struct StorageDB<S> { storage: S }
impl<S> StorageDB<S> where S: KeyValueInspect<Column = Column>, S: core::ops::Deref<Target = Store> {
//@ extract crates/services/block_aggregator_api/src/db/storage_db.rs StorageDB::get_current_height
//@ end
}
pub struct Owned(pub Store);
impl core::ops::Deref for Owned { type Target = Store; fn deref(&self) -> &Store { &self.0 } }
impl core::ops::DerefMut for Owned { fn deref_mut(&mut self) -> &mut Store { &mut self.0 } }
impl KeyValueInspect for Owned { type Column = Column; }
impl Modifiable for Owned {}
pub trait BlocksStorage { type Block; async fn store_block(&mut self, height: BlockHeight, block: &Self::Block) -> Result<()>; }
impl BlocksStorage for StorageDB<Owned> {
    type Block = Arc<[u8]>;
//@ extract crates/services/block_aggregator_api/src/db/storage_db.rs <StorageDB as BlocksStorage>::store_block
//@ end
}

// =====================================================================================================================
#[cfg(kani)] fn fmt_stub(_a: core::fmt::Arguments<'_>) -> String { String::new() }

// the aggregator's block storage only accepts contiguous heights, and writes block + latest marker atomically
//@ harness kind=proof tier=quick timeout=600 extra="-Z async-lib --default-unwind 3"
#[cfg(kani)]
#[kani::proof]
#[kani::stub(alloc::fmt::format, fmt_stub)]
fn c43_store_block() {
    let cur_kind: u8 = kani::any();
    kani::assume(cur_kind <= 2);
    let c: u32 = kani::any();
    let latest = match cur_kind { 0 => None, 1 => Some(Mode::Local(BlockHeight(c))), _ => Some(Mode::S3(BlockHeight(c))) };
    let fail_at: u8 = kani::any();
    kani::assume(fail_at <= 3);
    let store = Store { latest, read_fails: kani::any(), fail_at, ops: RefCell::new([0; 4]), n_ops: Cell::new(0),
        block_written: Cell::new(None), latest_written: RefCell::new(None), committed: Cell::new(0) };
    let read_fails = store.read_fails;
    let mut db = StorageDB { storage: Owned(store) };
    let h: u32 = kani::any();
    let block: Arc<[u8]> = Arc::from([1u8, 2, 3]);
    let bptr = Arc::as_ptr(&block) as *const u8 as usize;
    let r = kani::block_on(db.store_block(BlockHeight(h), &block));
    let ok = r.is_ok();
    core::mem::forget(r);
    let s = &db.storage.0;
    // the statement: only the successor of the current height is accepted (any height into an empty store)
    let contiguous = cur_kind == 0 || c == u32::MAX || h == c + 1;
    kani::cover!(ok && cur_kind != 0, "[C43.aggregator-store.store.cover-next-height-stored]");
    kani::cover!(!ok && !read_fails && fail_at == 0, "[C43.aggregator-store.store.cover-gap-rejected]");
    kani::assert(ok == (!read_fails && contiguous && fail_at == 0), "[C43.aggregator-store.store.accepted-iff-height-is-successor-of-current-and-storage-succeeds]");
    // a rejected height (or an unreadable current height) touches nothing
    kani::assert((!read_fails && contiguous) || s.n_ops.get() == 0, "[C43.aggregator-store.store.non-contiguous-height-writes-nothing]");
    if ok {
        let ops = *s.ops.borrow();
        kani::assert(s.n_ops.get() == 3 && ops[0] == 1 && ops[1] == 2 && ops[2] == 3 && s.committed.get() == 1, "[C43.aggregator-store.store.block-then-latest-marker-then-one-commit]");
        kani::assert(s.block_written.get() == Some((h, bptr)), "[C43.aggregator-store.store.block-stored-under-its-height]");
        kani::assert(*s.latest_written.borrow() == Some(Mode::Local(BlockHeight(h))), "[C43.aggregator-store.store.latest-marker-is-the-stored-height]");
    } else {
        // nothing is committed unless the commit itself is what failed
        kani::assert(s.committed.get() == (if !read_fails && contiguous && fail_at == 3 { 1 } else { 0 }), "[C43.aggregator-store.store.failed-store-commits-nothing]");
    }
}

// Vacuity canary
//@ harness kind=canary tier=quick expect=C43.aggregator-store.canary.never-stores timeout=600 extra="-Z async-lib --default-unwind 3"
#[cfg(kani)]
#[kani::proof]
#[kani::stub(alloc::fmt::format, fmt_stub)]
fn c43_canary() {
    let store = Store { latest: None, read_fails: false, fail_at: 0, ops: RefCell::new([0; 4]), n_ops: Cell::new(0),
        block_written: Cell::new(None), latest_written: RefCell::new(None), committed: Cell::new(0) };
    let mut db = StorageDB { storage: Owned(store) };
    let block: Arc<[u8]> = Arc::from([1u8]);
    let r = kani::block_on(db.store_block(BlockHeight(kani::any()), &block));
    let ok = r.is_ok();
    core::mem::forget(r);
    kani::assert(!ok, "[C43.aggregator-store.canary.never-stores]");
}
