// Scratch crate generated on every run. Pasted from /repo's current working tree (header and body byte for byte), from
// crates/services/tx_status_manager/src/manager.rs:
//   struct Data, TxStatusManager::{is_prunable, prune_old_statuses, add_new_status, register_status, status}
// Stand-ins (trusted, listed in unit.toml): std HashMap is its map CONTRACT (incl. the Entry API), exact for one probed
// transaction id and nondeterministic for all others (so the cache may hold any number of other transactions); VecDeque is
// a bounded queue (<= 3 entries) with the same back / pop_back / push_front semantics; tokio Instant is a tick counter
// driven by the harness (monotone: nothing in the cache is from the future); TransactionStatus keeps its seven variants
// with a u64 payload.
#![allow(unused)]
use core::cell::Cell;
use core::time::Duration;

#[derive(Clone, Copy, Debug, PartialEq, Eq)] pub struct TxId(pub u64);
#[derive(Clone, Copy, Debug, PartialEq, Eq)]
pub enum TransactionStatus { Submitted(u64), Success(u64), PreConfirmationSuccess(u64), SqueezedOut(u64), PreConfirmationSqueezedOut(u64), Failure(u64), PreConfirmationFailure(u64) }
static mut NOW: u64 = 0;
#[derive(Clone, Copy, Debug, PartialEq, Eq, PartialOrd, Ord)] pub struct Instant(pub u64); // half seconds (sub-second parts exist, but no 64-bit division by 1000 as Duration::from_millis would need)
impl Instant {
    pub fn now() -> Instant { Instant(unsafe { NOW }) }
    pub fn duration_since(&self, earlier: Instant) -> Duration { { let d = self.0.saturating_sub(earlier.0); Duration::new(d >> 1, ((d & 1) as u32) * 500_000_000) } }
}

/// CONTRACT of std HashMap, exact for `probe`; other keys: lookups answer absent, writes are counted
pub struct HashMap<K, V> { pub probe: K, pub slot: Option<V>, pub other_writes: u32 }
pub enum Entry<'a, K, V> { Occupied(OccupiedEntry<'a, K, V>), Vacant(VacantEntry) }
pub struct OccupiedEntry<'a, K, V> { map: &'a mut HashMap<K, V> }
pub struct VacantEntry;
impl<'a, K, V> OccupiedEntry<'a, K, V> {
    pub fn get(&self) -> &V { self.map.slot.as_ref().unwrap() }
    pub fn remove(self) -> V { self.map.slot.take().unwrap() }
}
impl<K: PartialEq + Copy, V> HashMap<K, V> {
    pub fn get(&self, k: &K) -> Option<&V> { if *k == self.probe { self.slot.as_ref() } else { None } }
    pub fn insert(&mut self, k: K, v: V) -> Option<V> { if k == self.probe { self.slot.replace(v) } else { self.other_writes += 1; None } }
    pub fn remove(&mut self, k: &K) -> Option<V> { if *k == self.probe { self.slot.take() } else { self.other_writes += 1; None } }
    pub fn contains_key(&self, k: &K) -> bool { self.get(k).is_some() }
    pub fn len(&self) -> usize { self.slot.is_some() as usize }
    pub fn entry(&mut self, k: K) -> Entry<'_, K, V> { if k == self.probe && self.slot.is_some() { Entry::Occupied(OccupiedEntry { map: self }) } else { if k != self.probe { self.other_writes += 1; } Entry::Vacant(VacantEntry) } }
}
/// bounded double-ended queue: items[0] is the front
pub struct VecDeque<T> { pub items: [Option<T>; 4], pub n: usize }
impl<T: Copy> VecDeque<T> {
    pub fn back(&self) -> Option<&T> { if self.n == 0 { None } else { self.items[self.n - 1].as_ref() } }
    pub fn pop_back(&mut self) -> Option<T> { if self.n == 0 { None } else { self.n -= 1; self.items[self.n].take() } }
    pub fn push_front(&mut self, t: T) { assert!(self.n < 4, "stand-in queue capacity"); let mut i = self.n; while i > 0 { self.items[i] = self.items[i - 1]; i -= 1; } self.items[0] = Some(t); self.n += 1; }
    pub fn len(&self) -> usize { self.n }
}

//@ extract crates/services/tx_status_manager/src/manager.rs struct Data
//@ end
pub struct TxStatusManager { data: Data, ttl: Duration }
impl TxStatusManager {
//@ extract crates/services/tx_status_manager/src/manager.rs TxStatusManager::is_prunable
//@ end
//@ extract crates/services/tx_status_manager/src/manager.rs TxStatusManager::prune_old_statuses
//@ end
//@ extract crates/services/tx_status_manager/src/manager.rs TxStatusManager::add_new_status
//@ end
//@ extract crates/services/tx_status_manager/src/manager.rs TxStatusManager::register_status
//@ end
//@ extract crates/services/tx_status_manager/src/manager.rs TxStatusManager::status
//@ end
}

// =====================================================================================================================
#[cfg(kani)]
fn any_status() -> TransactionStatus {
    let k: u8 = kani::any(); kani::assume(k <= 6); let p: u64 = kani::any();
    match k { 0 => TransactionStatus::Submitted(p), 1 => TransactionStatus::Success(p), 2 => TransactionStatus::PreConfirmationSuccess(p), 3 => TransactionStatus::SqueezedOut(p),
              4 => TransactionStatus::PreConfirmationSqueezedOut(p), 5 => TransactionStatus::Failure(p), _ => TransactionStatus::PreConfirmationFailure(p) }
}
#[cfg(kani)]
fn any_prunable_status() -> TransactionStatus { let s = any_status(); kani::assume(!matches!(s, TransactionStatus::Submitted(_))); s }

/// an arbitrary cache as seen through transaction P: what P has in the two maps, and a queue of up to 3 entries (for P or
/// for other transactions), nothing from the future
#[cfg(kani)]
fn any_manager(p: TxId, now: u64) -> TxStatusManager {
    let non_prunable = if kani::any() { Some(TransactionStatus::Submitted(kani::any())) } else { None };
    let prunable = if kani::any() { let t: u64 = kani::any(); kani::assume(t <= now); Some((Instant(t), any_prunable_status())) } else { None };
    let n: usize = kani::any(); kani::assume(n <= 3);
    let mut items: [Option<(Instant, TxId)>; 4] = [None; 4];
    let mut i = 0;
    while i < 3 { if i < n { let t: u64 = kani::any(); kani::assume(t <= now); items[i] = Some((Instant(t), if kani::any() { p } else { TxId(p.0 ^ 1) })); } i += 1; }
    TxStatusManager { data: Data { pruning_queue: VecDeque { items, n }, non_prunable_statuses: HashMap { probe: p, slot: non_prunable, other_writes: 0 }, prunable_statuses: HashMap { probe: p, slot: prunable, other_writes: 0 } },
        ttl: { let h: u64 = kani::any::<u32>() as u64; Duration::new(h >> 1, ((h & 1) as u32) * 500_000_000) } }
}

// Publishing a status for ANY transaction: the published transaction answers its new status; another transaction P keeps
// answering what it answered before, except that a NON-submitted status may be forgotten - and only if at least the
// time-to-live has passed since it was published.
//@ harness kind=bounded tier=quick bound="pruning queue of at most 3 entries (status maps of any size)" timeout=600 extra="--default-unwind 6"
#[cfg(kani)]
#[kani::proof]
fn c23_register_status() {
    let p = TxId(kani::any());
    let now: u64 = kani::any();
    unsafe { NOW = now; }
    let mut m = any_manager(p, now);
    let before = m.status(&p).copied();
    let before_submitted = m.data.non_prunable_statuses.slot;
    let before_prunable = m.data.prunable_statuses.slot;
    let ttl_ms = m.ttl.as_secs() * 2 + (if m.ttl.subsec_nanos() >= 500_000_000 { 1 } else { 0 }); // in half seconds
    let same: bool = kani::any();
    let id = if same { p } else { TxId(p.0 ^ 1) };
    let s = any_status();
    m.register_status(id, s);
    let after = m.status(&p).copied();
    kani::cover!(!same && before.is_some() && after.is_none(), "[C23.status-cache.register.cover-old-status-forgotten]");
    kani::cover!(same && before.is_some(), "[C23.status-cache.register.cover-status-replaced]");
    if same {
        kani::assert(after == Some(s), "[C23.status-cache.register.query-returns-the-most-recently-published-status]");
    } else {
        kani::assert(after == before || after.is_none(), "[C23.status-cache.register.other-transactions-answer-is-unchanged-or-forgotten]");
        if before_submitted.is_some() {
            kani::assert(after == before, "[C23.status-cache.register.submitted-status-is-kept-until-replaced]");
        }
        if after.is_none() && before.is_some() {
            let (t, _) = before_prunable.unwrap();
            kani::assert(now - t.0 >= ttl_ms, "[C23.status-cache.register.non-submitted-status-forgotten-only-after-the-time-to-live]");
        }
    }
}

// a freshly published non-submitted status survives every later publication made before its time-to-live has passed
//@ harness kind=bounded tier=quick bound="pruning queue of at most 3 entries (status maps of any size)" timeout=600 extra="--default-unwind 6"
#[cfg(kani)]
#[kani::proof]
fn c23_fresh_status_survives_until_ttl() {
    let p = TxId(kani::any());
    let t0: u64 = kani::any();
    kani::assume(t0 < u64::MAX / 2);
    unsafe { NOW = t0; }
    let mut m = any_manager(p, t0);
    kani::assume(m.data.pruning_queue.n <= 2);
    let ttl_ms = m.ttl.as_secs() * 2 + (if m.ttl.subsec_nanos() >= 500_000_000 { 1 } else { 0 }); // in half seconds
    let s = any_prunable_status();
    m.register_status(p, s);
    let dt: u64 = kani::any();
    kani::assume(dt < ttl_ms);
    unsafe { NOW = t0 + dt; }
    m.register_status(TxId(p.0 ^ 1), any_status());
    kani::assert(m.status(&p).copied() == Some(s), "[C23.status-cache.ttl.status-is-returned-until-at-least-the-time-to-live-has-passed]");
}

// Vacuity canary: "nothing is ever forgotten" must FAIL.
//@ harness kind=canary tier=quick expect=C23.status-cache.canary.never-forgets timeout=600 extra="--default-unwind 6"
#[cfg(kani)]
#[kani::proof]
fn c23_canary() {
    let p = TxId(kani::any());
    let now: u64 = kani::any();
    unsafe { NOW = now; }
    let mut m = any_manager(p, now);
    let before = m.status(&p).copied();
    m.register_status(TxId(p.0 ^ 1), any_status());
    kani::assert(m.status(&p).copied() == before, "[C23.status-cache.canary.never-forgets]");
}
