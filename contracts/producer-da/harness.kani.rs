// Contract harness for Producer::select_new_da_height (private async method; real code).
// Bounded stand-in: the DA gap (finalized - parent) is at most N heights; heights, costs, counts, limits full-domain.
use super::*;
use fuel_core_storage::Result as StorageResult;
use fuel_core_types::blockchain::block::CompressedBlock;
use std::borrow::Cow;

const N: usize = 4;

struct MockRelayer { highest_ok: bool, highest: u64, prev: u64, cost: [u64; N], txs: [u64; N], fail_at: u64 }
#[async_trait::async_trait]
impl ports::Relayer for MockRelayer {
    async fn wait_for_at_least_height(&self, _height: &DaBlockHeight) -> anyhow::Result<DaBlockHeight> {
        if self.highest_ok { Ok(DaBlockHeight(self.highest)) } else { Err(anyhow!("mock")) }
    }
    async fn get_cost_and_transactions_number_for_block(&self, height: &DaBlockHeight) -> anyhow::Result<RelayerBlockInfo> {
        let h = height.0;
        // the producer must only ask about heights inside (parent, finalized]
        kani::assert(h > self.prev && h <= self.highest, "[C30.producer-da.select.asks-only-heights-between-parent-and-finalized]");
        if h == self.fail_at { return Err(anyhow!("mock")) }
        let i = (h - self.prev - 1) as usize;
        Ok(RelayerBlockInfo { gas_cost: self.cost[i], tx_count: self.txs[i] })
    }
}

struct MockView;
struct MockDb;
impl AtomicView for MockView { type LatestView = MockDb; fn latest_view(&self) -> StorageResult<MockDb> { Ok(MockDb) } }
impl ports::BlockProducerDatabase for MockDb {
    fn latest_height(&self) -> Option<BlockHeight> { None }
    fn get_block(&self, _h: &BlockHeight) -> StorageResult<Cow<'_, CompressedBlock>> { Err(fuel_core_storage::Error::NotFound("mock", "mock")) }
    fn get_full_block(&self, _h: &BlockHeight) -> StorageResult<Block> { Err(fuel_core_storage::Error::NotFound("mock", "mock")) }
    fn block_header_merkle_root(&self, _h: &BlockHeight) -> StorageResult<Bytes32> { Err(fuel_core_storage::Error::NotFound("mock", "mock")) }
    fn latest_consensus_parameters_version(&self) -> StorageResult<ConsensusParametersVersion> { Ok(0) }
    fn latest_state_transition_bytecode_version(&self) -> StorageResult<StateTransitionBytecodeVersion> { Ok(0) }
}
struct MockChain;
impl ChainStateInfoProvider for MockChain {
    fn consensus_params_at_version(&self, _v: &ConsensusParametersVersion) -> anyhow::Result<Arc<fuel_core_types::fuel_tx::ConsensusParameters>> { Err(anyhow!("mock")) }
}
fn stub_bt() -> std::backtrace::Backtrace { std::backtrace::Backtrace::disabled() }

/// The statement: the largest k in (prev, highest] such that the cumulative (saturating) relayed gas cost and
/// transaction count of prev+1..=k stay within the limits; None if not even prev+1 fits.
fn largest_fitting(prev: u64, highest: u64, cost: &[u64; N], txs: &[u64; N], gas_limit: u64, tx_limit: u64) -> Option<u64> {
    let mut best = None;
    let mut g: u64 = 0;
    let mut t: u64 = 0;
    let mut i = 0usize;
    let mut fits = true;
    while i < N {
        let h = prev + 1 + i as u64;
        if h <= highest {
            g = g.saturating_add(cost[i]);
            t = t.saturating_add(txs[i]);
            fits = fits && g <= gas_limit && t <= tx_limit;
            if fits { best = Some(h); }
        }
        i += 1;
    }
    best
}

//@ harness kind=bounded tier=quick bound="finalized - parent DA height <= 4" timeout=1800 extra="--default-unwind 7"
#[kani::proof]
#[kani::stub(std::backtrace::Backtrace::capture, stub_bt)]
fn c30_select_new_da_height() {
    let prev: u64 = kani::any();
    let highest: u64 = kani::any();
    kani::assume(prev < u64::MAX - 8);
    kani::assume(highest <= prev + N as u64);
    let relayer = MockRelayer { highest_ok: kani::any(), highest, prev, cost: kani::any(), txs: kani::any(), fail_at: kani::any() };
    let (cost, txs, highest_ok, fail_at) = (relayer.cost, relayer.txs, relayer.highest_ok, relayer.fail_at);
    let gas_limit: u64 = kani::any();
    let tx_limit: u16 = kani::any();
    let producer = Producer {
        config: Config { coinbase_recipient: None, metrics: false },
        view_provider: MockView,
        txpool: (),
        executor: Arc::new(()),
        relayer: Box::new(relayer),
        lock: Mutex::new(()),
        gas_price_provider: (),
        chain_state_info_provider: MockChain,
    };
    let r = kani::block_on(producer.select_new_da_height(gas_limit, DaBlockHeight(prev), tx_limit));
    let res: Option<u64> = match &r { Ok(h) => Some(h.0), Err(_) => None };
    core::mem::forget(r);
    let spec = largest_fitting(prev, highest, &cost, &txs, gas_limit, tx_limit as u64);
    kani::cover!(res.is_some() && res.unwrap() > prev + 1 && res.unwrap() < highest, "[C30.producer-da.select.cover-stops-in-the-middle]");
    kani::cover!(res.is_none() && highest_ok && highest > prev, "[C30.producer-da.select.cover-fails-rather-than-exceed]");
    // never decreases, never passes the finalized height
    kani::assert(match res { Some(h) => h >= prev && h <= highest, None => true }, "[C30.producer-da.select.between-parent-and-finalized-height]");
    // a relayer error or a finalized height below the parent is never turned into a height
    kani::assert(!(res.is_some() && (!highest_ok || highest < prev)), "[C30.producer-da.select.relayer-error-or-stale-finalized-height-fails]");
    // the chosen height is exactly the largest fitting prefix (when the relayer answered every question it was asked)
    let asked_failure = highest_ok && fail_at > prev && fail_at <= highest
        && match spec { Some(k) => fail_at <= k.saturating_add(1), None => fail_at == prev + 1 };
    kani::assert(!(asked_failure && highest > prev) || res.is_none(), "[C30.producer-da.select.relayer-error-on-an-asked-height-fails]");
    if highest_ok && highest >= prev && !asked_failure {
        if highest == prev {
            kani::assert(res == Some(prev), "[C30.producer-da.select.no-new-finalized-height-keeps-parent-height]");
        } else {
            kani::assert(res == spec, "[C30.producer-da.select.is-largest-prefix-within-gas-and-transaction-limits]");
        }
    }
    core::mem::forget(producer);
}
