// Scratch crate generated on every run. Pasted from /repo's current working tree (header and body byte for byte), from
// crates/storage/src/blueprint/merklized.rs:
//   Merklized::insert_into_tree, Merklized::remove, <Merklized as BlueprintMutate>::{put, replace, take, delete}
//   and from crates/storage/src/tables.rs: enum DenseMetadataKey, enum DenseMerkleMetadata + impls, struct DenseMerkleMetadataV1
// Stand-ins (trusted, listed in unit.toml): fuel-merkle's binary MerkleTree (load from the Nodes table at a version, push,
// leaves_count, root) is an order-sensitive uninterpreted fold whose state lives in the storage stand-in; the key-value
// store and the metadata table are map contracts exact for two probed keys; codecs turn keys / values into 1-byte tags.
#![allow(unused)]
extern crate alloc;
use alloc::borrow::{Cow, ToOwned};
use core::cell::{Cell, RefCell};
use core::marker::PhantomData;

pub type StorageResult<T> = Result<T, StorageError>;
#[derive(Debug)] pub enum StorageError { Codec(CodecError), Other(anyhow::Error), Tree }
impl From<anyhow::Error> for StorageError { fn from(e: anyhow::Error) -> Self { StorageError::Other(e) } }
#[derive(Debug)] pub struct CodecError;
pub type MerkleRoot = [u8; 4];
#[derive(Clone, Copy, Debug, PartialEq, Eq)] pub struct Value(pub u8);
#[derive(Clone, Copy, Debug, PartialEq, Eq)] pub struct Column;
#[derive(Clone)] pub struct Primitive;

pub mod merkle_tables {
    use super::*;
    #[derive(Default, Debug, Clone, PartialEq, Eq)]
//@ extract crates/storage/src/tables.rs enum DenseMetadataKey
//@ end
    #[derive(Debug, Clone, PartialEq, Eq)]
//@ extract crates/storage/src/tables.rs enum DenseMerkleMetadata
//@ end
//@ extract crates/storage/src/tables.rs impl Default for DenseMerkleMetadata
//@ end
//@ extract crates/storage/src/tables.rs impl DenseMerkleMetadata
//@ end
    #[derive(Debug, Clone, PartialEq, Eq, Default)]
//@ extract crates/storage/src/tables.rs struct DenseMerkleMetadataV1
//@ end
}
use merkle_tables::{DenseMerkleMetadata, DenseMerkleMetadataV1, DenseMetadataKey};

pub trait Mappable { type Key: ?Sized + ToOwned<Owned = Self::OwnedKey>; type OwnedKey: Clone + PartialEq; type Value: ?Sized; type OwnedValue: Clone; }
/// 1-byte encodings
pub struct Bytes(pub [u8; 1]);
impl AsRef<[u8]> for Bytes { fn as_ref(&self) -> &[u8] { &self.0 } }
pub struct Enc(pub u8);
impl Enc { pub fn as_bytes(&self) -> Bytes { Bytes([self.0]) } }
pub trait Encode<T: ?Sized> { fn encode(t: &T) -> Enc; fn encode_as_value(t: &T) -> Value; }
pub trait Decode<T> { fn decode_from_value(v: Value) -> Result<T, CodecError>; }
pub struct Codec;
impl Encode<u8> for Codec { fn encode(t: &u8) -> Enc { Enc(*t) } fn encode_as_value(t: &u8) -> Value { Value(*t) } }
impl Decode<u8> for Codec { fn decode_from_value(v: Value) -> Result<u8, CodecError> { Ok(v.0) } }

/// the storage underneath the blueprint: the plain key-value column (exact for keys A and B), the metadata table (Latest,
/// Primary(A), Primary(B)) and the Merkle tree's node state (an order-sensitive fold of the pushed leaves)
pub struct Store {
    pub ka: u8, pub va: Option<Value>, pub kb: u8, pub vb: Option<Value>,
    pub latest: Option<DenseMerkleMetadata>, pub pa: Option<DenseMerkleMetadata>, pub pb: Option<DenseMerkleMetadata>,
    pub tree_leaves: u64, pub tree_acc: u32, pub fails: bool, pub meta_writes: u32, pub kv_writes: u32,
}
pub trait KeyValueInspect { type Column: Copy; fn exists(&self, key: &[u8], column: Self::Column) -> StorageResult<bool>; }
pub trait KeyValueMutate: KeyValueInspect {
    fn put(&mut self, key: &[u8], column: Self::Column, value: Value) -> StorageResult<()>;
    fn replace(&mut self, key: &[u8], column: Self::Column, value: Value) -> StorageResult<Option<Value>>;
    fn take(&mut self, key: &[u8], column: Self::Column) -> StorageResult<Option<Value>>;
}
impl Store {
    fn slot(&mut self, key: &[u8]) -> Option<&mut Option<Value>> { if key.len() != 1 { None } else if key[0] == self.ka { Some(&mut self.va) } else if key[0] == self.kb { Some(&mut self.vb) } else { None } }
    fn peek(&self, key: &[u8]) -> Option<Value> { if key.len() != 1 { None } else if key[0] == self.ka { self.va } else if key[0] == self.kb { self.vb } else { None } }
}
impl KeyValueInspect for Store { type Column = Column; fn exists(&self, key: &[u8], _c: Column) -> StorageResult<bool> { if self.fails { Err(StorageError::Tree) } else { Ok(self.peek(key).is_some()) } } }
impl KeyValueMutate for Store {
    fn put(&mut self, key: &[u8], _c: Column, value: Value) -> StorageResult<()> { self.kv_writes += 1; if let Some(s) = self.slot(key) { *s = Some(value); } Ok(()) }
    fn replace(&mut self, key: &[u8], _c: Column, value: Value) -> StorageResult<Option<Value>> { self.kv_writes += 1; Ok(match self.slot(key) { Some(s) => s.replace(value), None => None }) }
    fn take(&mut self, key: &[u8], _c: Column) -> StorageResult<Option<Value>> { self.kv_writes += 1; Ok(match self.slot(key) { Some(s) => s.take(), None => None }) }
}
pub struct MetaTable; pub struct NodesTable;
impl Mappable for MetaTable { type Key = DenseMetadataKey<u8>; type OwnedKey = DenseMetadataKey<u8>; type Value = DenseMerkleMetadata; type OwnedValue = DenseMerkleMetadata; }
impl Mappable for NodesTable { type Key = u64; type OwnedKey = u64; type Value = Primitive; type OwnedValue = Primitive; }
/// table access of a storage, as a contract: typed get / insert plus (for the tree stand-in) access to the node state
pub trait StorageMutate<T: Mappable> {
    type Error;
    fn get_(&self, k: &T::Key) -> StorageResult<Option<Cow<'_, T::OwnedValue>>>;
    fn insert_(&mut self, k: &T::Key, v: &T::Value) -> StorageResult<()>;
    fn raw(&mut self) -> &mut Store;
}
impl StorageMutate<MetaTable> for Store {
    type Error = StorageError;
    fn get_(&self, k: &DenseMetadataKey<u8>) -> StorageResult<Option<Cow<'_, DenseMerkleMetadata>>> {
        if self.fails { return Err(StorageError::Tree) }
        Ok(match k { DenseMetadataKey::Latest => self.latest.clone(), DenseMetadataKey::Primary(p) if *p == self.ka => self.pa.clone(), DenseMetadataKey::Primary(p) if *p == self.kb => self.pb.clone(), _ => None }.map(Cow::Owned))
    }
    fn insert_(&mut self, k: &DenseMetadataKey<u8>, v: &DenseMerkleMetadata) -> StorageResult<()> {
        self.meta_writes += 1;
        match k { DenseMetadataKey::Latest => self.latest = Some(v.clone()), DenseMetadataKey::Primary(p) if *p == self.ka => self.pa = Some(v.clone()), DenseMetadataKey::Primary(p) if *p == self.kb => self.pb = Some(v.clone()), _ => {} }
        Ok(())
    }
    fn raw(&mut self) -> &mut Store { self }
}
impl StorageMutate<NodesTable> for Store {
    type Error = StorageError;
    fn get_(&self, _k: &u64) -> StorageResult<Option<Cow<'_, Primitive>>> { Ok(None) }
    fn insert_(&mut self, _k: &u64, _v: &Primitive) -> StorageResult<()> { Ok(()) }
    fn raw(&mut self) -> &mut Store { self }
}
pub struct StructuredStorage<S>(pub S);
impl<'a, T: Mappable, S: StorageMutate<T>> StorageMutate<T> for StructuredStorage<&'a mut S> {
    type Error = S::Error;
    fn get_(&self, k: &T::Key) -> StorageResult<Option<Cow<'_, T::OwnedValue>>> { self.0.get_(k) }
    fn insert_(&mut self, k: &T::Key, v: &T::Value) -> StorageResult<()> { self.0.insert_(k, v) }
    fn raw(&mut self) -> &mut Store { self.0.raw() }
}
impl<'s, T: Mappable, S: StorageMutate<T>> StorageMutate<T> for &'s mut S {
    type Error = S::Error;
    fn get_(&self, k: &T::Key) -> StorageResult<Option<Cow<'_, T::OwnedValue>>> { (**self).get_(k) }
    fn insert_(&mut self, k: &T::Key, v: &T::Value) -> StorageResult<()> { (**self).insert_(k, v) }
    fn raw(&mut self) -> &mut Store { (**self).raw() }
}
pub struct TableMut<'a, S, T>(&'a mut S, PhantomData<T>);
pub trait StorageAsMut: Sized { fn storage<T: Mappable>(&mut self) -> TableMut<'_, Self, T> where Self: StorageMutate<T> { TableMut(self, PhantomData) } }
impl<S> StorageAsMut for S {}
impl<'a, S: StorageMutate<T>, T: Mappable> TableMut<'a, S, T> {
    pub fn get(self, k: &T::Key) -> StorageResult<Option<Cow<'a, T::OwnedValue>>> { let s: &'a S = self.0; s.get_(k) }
    pub fn insert(self, k: &T::Key, v: &T::Value) -> StorageResult<()> { self.0.insert_(k, v) }
}
#[derive(Debug)] pub struct TreeError;
impl From<TreeError> for StorageError { fn from(_: TreeError) -> Self { StorageError::Tree } }
pub fn fold(acc: u32, leaf: &[u8]) -> u32 { acc.rotate_left(5) ^ (leaf[0] as u32) ^ 0x9e37 }
pub mod fuel_core_types { pub mod fuel_merkle { pub mod binary {
    use crate::*;
    /// contract of the binary Merkle tree over the Nodes table: `load(storage, v)` restores the tree with v leaves (fails if the
    /// stored tree does not have v leaves), `push` appends a leaf, root() is a function of the ordered leaves
    pub struct MerkleTree<N, S> { s: S, _n: PhantomData<N> }
    impl<'a, 'b, N: Mappable, S: StorageMutate<N>> MerkleTree<N, &'a mut &'b mut S> {
        pub fn load(s: &'a mut &'b mut S, version: u64) -> Result<Self, TreeError> { if s.raw().tree_leaves != version { return Err(TreeError) } Ok(MerkleTree { s, _n: PhantomData }) }
        pub fn push(&mut self, leaf: &[u8]) -> Result<(), TreeError> { let st = self.s.raw(); st.tree_acc = fold(st.tree_acc, leaf); st.tree_leaves += 1; Ok(()) }
        pub fn leaves_count(&mut self) -> u64 { self.s.raw().tree_leaves }
        pub fn root(&mut self) -> MerkleRoot { self.s.raw().tree_acc.to_be_bytes() }
    }
}}}

pub struct Merklized<KeyCodec, ValueCodec, Metadata, Nodes, ValueEncoder> { _marker: PhantomData<(KeyCodec, ValueCodec, Metadata, Nodes, ValueEncoder)> }
impl<KeyCodec, ValueCodec, Metadata, Nodes, Encoder> Merklized<KeyCodec, ValueCodec, Metadata, Nodes, Encoder>
where Nodes: Mappable<Key = u64, Value = Primitive, OwnedValue = Primitive>,
{
//@ extract crates/storage/src/blueprint/merklized.rs Merklized::insert_into_tree
//@ end
//@ extract crates/storage/src/blueprint/merklized.rs Merklized::remove
//@ end
}
pub trait BlueprintMutate<M: Mappable, S: KeyValueMutate> {
    fn put(storage: &mut S, key: &M::Key, column: S::Column, value: &M::Value) -> StorageResult<()>;
    fn replace(storage: &mut S, key: &M::Key, column: S::Column, value: &M::Value) -> StorageResult<Option<M::OwnedValue>>;
    fn take(storage: &mut S, key: &M::Key, column: S::Column) -> StorageResult<Option<M::OwnedValue>>;
    fn delete(storage: &mut S, key: &M::Key, column: S::Column) -> StorageResult<()>;
}
//@ extract crates/storage/src/blueprint/merklized.rs impl BlueprintMutate for Merklized
//@ end

pub struct BlocksTable;
impl Mappable for BlocksTable { type Key = u8; type OwnedKey = u8; type Value = u8; type OwnedValue = u8; }
type Bp = Merklized<Codec, Codec, MetaTable, NodesTable, Codec>;

// =====================================================================================================================
#[cfg(kani)] fn fmt_stub(_a: core::fmt::Arguments<'_>) -> String { String::new() }
#[cfg(kani)]
fn any_meta(version: u64) -> DenseMerkleMetadata { DenseMerkleMetadata::V1(DenseMerkleMetadataV1 { root: kani::any(), version }) }
/// a consistent accumulator state: n blocks appended so far; key A may be one of them, key B may be one of them
#[cfg(kani)]
fn any_store() -> Store {
    let n: u64 = kani::any(); kani::assume(n < u64::MAX - 2);
    let acc: u32 = kani::any();
    let ka: u8 = kani::any(); let kb: u8 = kani::any(); kani::assume(ka != kb);
    let a_in: bool = kani::any(); let b_in: bool = kani::any();
    kani::assume((a_in as u64) + (b_in as u64) <= n);
    let latest = if n == 0 { None } else { Some(DenseMerkleMetadata::V1(DenseMerkleMetadataV1 { root: acc.to_be_bytes(), version: n })) };
    Store { ka, va: if a_in { Some(Value(kani::any())) } else { None }, kb, vb: if b_in { Some(Value(kani::any())) } else { None },
            latest, pa: if a_in { Some(any_meta(kani::any())) } else { None }, pb: if b_in { Some(any_meta(kani::any())) } else { None },
            tree_leaves: n, tree_acc: acc, fails: false, meta_writes: 0, kv_writes: 0 }
}

// ---- appending a new block: its root is the fold over all earlier leaves plus this one; it becomes the latest root; the
// version grows by one; every other recorded root is untouched
//@ harness kind=proof tier=quick timeout=900 extra="--default-unwind 6"
#[cfg(kani)] #[kani::proof] #[kani::stub(alloc::fmt::format, fmt_stub)]
fn c13_insert_new_block() {
    let mut s = any_store();
    kani::assume(s.va.is_none());
    let (n0, acc0, pb0) = (s.tree_leaves, s.tree_acc, s.pb.clone());
    let (ka, v): (u8, u8) = (s.ka, kani::any());
    let r = <Bp as BlueprintMutate<BlocksTable, Store>>::put(&mut s, &ka, Column, &v);
    kani::cover!(r.is_ok() && n0 > 0, "[C13.merklized.insert.cover-append-to-non-empty-accumulator]");
    kani::assert(r.is_ok(), "[C13.merklized.insert.appending-a-new-block-succeeds]");
    let want_root = fold(acc0, &[v]).to_be_bytes();
    let want = DenseMerkleMetadata::V1(DenseMerkleMetadataV1 { root: want_root, version: n0 + 1 });
    kani::assert(s.pa == Some(want.clone()), "[C13.merklized.insert.recorded-root-for-the-block-is-the-root-over-all-blocks-up-to-it]");
    kani::assert(s.latest == Some(want), "[C13.merklized.insert.latest-root-is-the-root-over-all-blocks]");
    kani::assert(s.pb == pb0, "[C13.merklized.insert.roots-recorded-for-other-blocks-are-untouched]");
    kani::assert(s.va == Some(Value(v)) && s.tree_leaves == n0 + 1, "[C13.merklized.insert.block-stored-and-exactly-one-leaf-appended]");
}

// ---- removing / taking / deleting / replacing an already stored block fails and leaves every recorded root unchanged
//@ harness kind=proof tier=quick timeout=900 extra="--default-unwind 6"
#[cfg(kani)] #[kani::proof] #[kani::stub(alloc::fmt::format, fmt_stub)]
fn c13_stored_block_is_immutable() {
    let mut s = any_store();
    kani::assume(s.va.is_some());
    let (n0, acc0, latest0, pa0, pb0) = (s.tree_leaves, s.tree_acc, s.latest.clone(), s.pa.clone(), s.pb.clone());
    let ka = s.ka;
    let op: u8 = kani::any(); kani::assume(op <= 2);
    let v: u8 = kani::any();
    let failed = match op {
        0 => <Bp as BlueprintMutate<BlocksTable, Store>>::take(&mut s, &ka, Column).is_err(),
        1 => <Bp as BlueprintMutate<BlocksTable, Store>>::delete(&mut s, &ka, Column).is_err(),
        _ => <Bp as BlueprintMutate<BlocksTable, Store>>::replace(&mut s, &ka, Column, &v).is_err(),
    };
    kani::assert(failed, "[C13.merklized.immutable.remove-or-replace-of-a-stored-block-fails]");
    kani::assert(s.latest == latest0 && s.pa == pa0 && s.pb == pb0 && s.tree_leaves == n0 && s.tree_acc == acc0 && s.meta_writes == 0, "[C13.merklized.immutable.every-recorded-root-and-the-tree-are-unchanged]");
}

// ---- removing a block that is not stored is a no-op
//@ harness kind=proof tier=quick timeout=900 extra="--default-unwind 6"
#[cfg(kani)] #[kani::proof] #[kani::stub(alloc::fmt::format, fmt_stub)]
fn c13_remove_of_absent_block() {
    let mut s = any_store();
    kani::assume(s.va.is_none());
    let (latest0, pa0, pb0, n0) = (s.latest.clone(), s.pa.clone(), s.pb.clone(), s.tree_leaves);
    let ka = s.ka;
    let r = <Bp as BlueprintMutate<BlocksTable, Store>>::delete(&mut s, &ka, Column);
    kani::assert(r.is_ok() && s.latest == latest0 && s.pa == pa0 && s.pb == pb0 && s.tree_leaves == n0 && s.va.is_none(), "[C13.merklized.immutable.deleting-an-absent-block-changes-nothing]");
}

// Vacuity canary
//@ harness kind=canary tier=quick expect=C13.merklized.canary.root-never-changes timeout=900 extra="--default-unwind 6"
#[cfg(kani)] #[kani::proof] #[kani::stub(alloc::fmt::format, fmt_stub)]
fn c13_canary() {
    let mut s = any_store();
    kani::assume(s.va.is_none());
    let l0 = s.latest.clone();
    let ka = s.ka;
    let _ = <Bp as BlueprintMutate<BlocksTable, Store>>::put(&mut s, &ka, Column, &kani::any());
    kani::assert(s.latest == l0, "[C13.merklized.canary.root-never-changes]");
}
