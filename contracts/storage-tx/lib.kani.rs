// Scratch crate generated on every run. Pasted from /repo's current working tree (header and body byte for byte), from
// crates/storage/src/transactional.rs:
//   struct InMemoryTransaction, enum ConflictPolicy, InMemoryTransaction::get_from_changes,
//   impl KeyValueInspect for InMemoryTransaction (exists, size_of_value, get, read_exact, read_zerofill),
//   impl KeyValueMutate for InMemoryTransaction (put, replace, write, take, delete),
//   impl Modifiable for InMemoryTransaction (commit_changes)      [the no-std variant of `Changes`: BTreeMap of BTreeMaps]
//   and from crates/storage/src/kv_store.rs: enum WriteOperation
// Stand-ins (trusted, listed in unit.toml): alloc BTreeMap (+ its Entry API) is a small association list with the same map
// semantics (<= 2 entries); keys are 1-byte ReferenceBytesKeys; values are <= 3 bytes; the underlying storage is a map
// contract exact for two probed keys.
#![allow(unused)]
extern crate alloc;
use core::cell::Cell;

pub type StorageResult<T> = Result<T, StorageError>;
#[derive(Debug)] pub enum StorageError { Other(anyhow::Error) }
impl From<anyhow::Error> for StorageError { fn from(e: anyhow::Error) -> Self { StorageError::Other(e) } }
#[derive(Debug, PartialEq, Eq)] pub enum StorageReadError { KeyNotFound, OutOfBounds }
/// value bytes: at most 3, Arc<[u8]>-like surface (len / as_ref / clone / From<&[u8]>)
#[derive(Clone, Copy, Debug, PartialEq, Eq)]
pub struct Value { pub b: [u8; 3], pub n8: u8 }
impl Value { pub fn len(&self) -> usize { self.n8 as usize } }
impl AsRef<[u8]> for Value { fn as_ref(&self) -> &[u8] { &self.b[..self.n8 as usize] } }
impl From<&[u8]> for Value { fn from(s: &[u8]) -> Self { let mut b = [0u8; 3]; let n = if s.len() < 3 { s.len() } else { 3 }; let mut i = 0; while i < 3 { if i < n { b[i] = s[i]; } i += 1; } Value { b, n8: n as u8 } } }
#[derive(Clone, Copy, Debug, PartialEq, Eq, PartialOrd, Ord)]
pub struct ReferenceBytesKey(pub u8);
impl From<Vec<u8>> for ReferenceBytesKey { fn from(v: Vec<u8>) -> Self { ReferenceBytesKey(v[0]) } }
impl ReferenceBytesKey { fn matches(&self, k: &[u8]) -> bool { k.len() == 1 && k[0] == self.0 } }
pub trait StorageColumn: Copy + core::fmt::Debug { fn id(&self) -> u32; }
#[derive(Clone, Copy, Debug, PartialEq, Eq)] pub struct Col(pub u32);
impl StorageColumn for Col { fn id(&self) -> u32 { self.0 } }

// ---- BTreeMap contract: association list, map semantics
pub trait KeyLike<Q: ?Sized> { fn same(&self, q: &Q) -> bool; }
impl KeyLike<u32> for u32 { fn same(&self, q: &u32) -> bool { self == q } }
impl KeyLike<[u8]> for ReferenceBytesKey { fn same(&self, q: &[u8]) -> bool { self.matches(q) } }
#[derive(Clone, Debug)]
pub struct BTreeMap<K, V> { pub items: [Option<(K, V)>; 2] }
impl<K, V> Default for BTreeMap<K, V> { fn default() -> Self { BTreeMap { items: [None, None] } } }
impl<K: PartialEq + Copy, V> BTreeMap<K, V> {
    fn pos(&self, k: &K) -> Option<usize> { let mut i = 0; while i < 2 { if let Some((kk, _)) = &self.items[i] { if kk == k { return Some(i) } } i += 1; } None }
    fn free(&self) -> usize { let mut i = 0; while i < 2 { if self.items[i].is_none() { return i } i += 1; } panic!("stand-in map capacity") }
    pub fn get<Q: ?Sized>(&self, q: &Q) -> Option<&V> where K: KeyLike<Q> { let mut i = 0; while i < 2 { if let Some((kk, v)) = &self.items[i] { if kk.same(q) { return Some(v) } } i += 1; } None }
    pub fn insert(&mut self, k: K, v: V) -> Option<V> { match self.pos(&k) { Some(i) => self.items[i].replace((k, v)).map(|o| o.1), None => { let f = self.free(); self.items[f] = Some((k, v)); None } } }
    pub fn entry(&mut self, k: K) -> btree_map::Entry<'_, K, V> { match self.pos(&k) { Some(i) => btree_map::Entry::Occupied(btree_map::OccupiedEntry { map: self, i }), None => btree_map::Entry::Vacant(btree_map::VacantEntry { map: self, k }) } }
    pub fn len(&self) -> usize { (self.items[0].is_some() as usize) + (self.items[1].is_some() as usize) }
}
pub struct MapIntoIter<K, V> { items: [Option<(K, V)>; 2], i: usize }
impl<K, V> Iterator for MapIntoIter<K, V> { type Item = (K, V); fn next(&mut self) -> Option<(K, V)> { while self.i < 2 { let it = self.items[self.i].take(); self.i += 1; if it.is_some() { return it } } None } }
impl<K, V> IntoIterator for BTreeMap<K, V> { type Item = (K, V); type IntoIter = MapIntoIter<K, V>; fn into_iter(self) -> Self::IntoIter { MapIntoIter { items: self.items, i: 0 } } }
pub mod btree_map {
    use super::BTreeMap;
    pub enum Entry<'a, K, V> { Occupied(OccupiedEntry<'a, K, V>), Vacant(VacantEntry<'a, K, V>) }
    pub struct OccupiedEntry<'a, K, V> { pub(super) map: &'a mut BTreeMap<K, V>, pub(super) i: usize }
    pub struct VacantEntry<'a, K, V> { pub(super) map: &'a mut BTreeMap<K, V>, pub(super) k: K }
    impl<'a, K: PartialEq + Copy, V> OccupiedEntry<'a, K, V> {
        pub fn insert(&mut self, v: V) -> V { let (k, old) = self.map.items[self.i].take().unwrap(); self.map.items[self.i] = Some((k, v)); old }
        pub fn key(&self) -> &K { &self.map.items[self.i].as_ref().unwrap().0 }
        pub fn into_mut(self) -> &'a mut V { &mut self.map.items[self.i].as_mut().unwrap().1 }
        pub fn get(&self) -> &V { &self.map.items[self.i].as_ref().unwrap().1 }
        pub fn remove(self) -> V { self.map.items[self.i].take().unwrap().1 }
    }
    impl<'a, K: PartialEq + Copy, V> VacantEntry<'a, K, V> {
        pub fn insert(self, v: V) -> &'a mut V { let f = self.map.free(); self.map.items[f] = Some((self.k, v)); &mut self.map.items[f].as_mut().unwrap().1 }
    }
    impl<'a, K: PartialEq + Copy, V: Default> Entry<'a, K, V> {
        pub fn or_default(self) -> &'a mut V { match self { Entry::Occupied(o) => o.into_mut(), Entry::Vacant(v) => v.insert(V::default()) } }
    }
}
pub type Changes = BTreeMap<u32, BTreeMap<ReferenceBytesKey, WriteOperation>>;

#[derive(Clone, Debug, PartialEq, Eq)]
//@ extract crates/storage/src/kv_store.rs enum WriteOperation
//@ end
#[derive(Default, Debug, Clone, Copy, PartialEq, Eq)]
//@ extract crates/storage/src/transactional.rs enum ConflictPolicy
//@ end
#[derive(Debug, Clone)]
//@ extract crates/storage/src/transactional.rs struct InMemoryTransaction
//@ end

pub trait KeyValueInspect {
    type Column: StorageColumn;
    fn exists(&self, key: &[u8], column: Self::Column) -> StorageResult<bool>;
    fn size_of_value(&self, key: &[u8], column: Self::Column) -> StorageResult<Option<usize>>;
    fn get(&self, key: &[u8], column: Self::Column) -> StorageResult<Option<Value>>;
    fn read_exact(&self, key: &[u8], column: Self::Column, offset: usize, buf: &mut [u8]) -> StorageResult<Result<usize, StorageReadError>>;
    fn read_zerofill(&self, key: &[u8], column: Self::Column, offset: usize, buf: &mut [u8]) -> StorageResult<Result<usize, StorageReadError>>;
}
pub trait KeyValueMutate: KeyValueInspect {
    fn put(&mut self, key: &[u8], column: Self::Column, value: Value) -> StorageResult<()>;
    fn replace(&mut self, key: &[u8], column: Self::Column, value: Value) -> StorageResult<Option<Value>>;
    fn write(&mut self, key: &[u8], column: Self::Column, buf: &[u8]) -> StorageResult<usize>;
    fn take(&mut self, key: &[u8], column: Self::Column) -> StorageResult<Option<Value>>;
    fn delete(&mut self, key: &[u8], column: Self::Column) -> StorageResult<()>;
}
pub trait Modifiable { fn commit_changes(&mut self, changes: Changes) -> StorageResult<()>; }

//@ extract crates/storage/src/transactional.rs impl InMemoryTransaction
//@ end
//@ extract crates/storage/src/transactional.rs impl KeyValueInspect for InMemoryTransaction
//@ end
//@ extract crates/storage/src/transactional.rs impl KeyValueMutate for InMemoryTransaction
//@ end
//@ extract crates/storage/src/transactional.rs impl Modifiable for InMemoryTransaction
//@ end

/// the storage underneath: map contract exact for keys A and B of one column (everything else absent); counts reads
pub struct Base { pub col: u32, pub ka: u8, pub va: Option<Value>, pub kb: u8, pub vb: Option<Value>, pub reads: Cell<u32> }
impl Base { fn look(&self, key: &[u8], column: Col) -> Option<Value> { self.reads.set(self.reads.get() + 1); if column.0 != self.col || key.len() != 1 { None } else if key[0] == self.ka { self.va } else if key[0] == self.kb { self.vb } else { None } } }
impl KeyValueInspect for Base {
    type Column = Col;
    fn exists(&self, key: &[u8], column: Col) -> StorageResult<bool> { Ok(self.look(key, column).is_some()) }
    fn size_of_value(&self, key: &[u8], column: Col) -> StorageResult<Option<usize>> { Ok(self.look(key, column).map(|v| v.len())) }
    fn get(&self, key: &[u8], column: Col) -> StorageResult<Option<Value>> { Ok(self.look(key, column)) }
    fn read_exact(&self, key: &[u8], column: Col, offset: usize, buf: &mut [u8]) -> StorageResult<Result<usize, StorageReadError>> { Ok(Err(StorageReadError::KeyNotFound)) }
    fn read_zerofill(&self, key: &[u8], column: Col, offset: usize, buf: &mut [u8]) -> StorageResult<Result<usize, StorageReadError>> { Ok(Err(StorageReadError::KeyNotFound)) }
}

// =====================================================================================================================
#[cfg(kani)] fn fmt_stub(_a: core::fmt::Arguments<'_>) -> String { String::new() }
#[cfg(kani)]
fn any_value() -> Value { let n: usize = kani::any(); kani::assume(n <= 3); let b: [u8; 3] = kani::any(); let mut v = Value { b, n8: n as u8 }; let mut i = 0; while i < 3 { if i >= n { v.b[i] = 0; } i += 1; } v }
#[cfg(kani)]
fn any_op() -> Option<WriteOperation> { let k: u8 = kani::any(); kani::assume(k <= 2); match k { 0 => None, 1 => Some(WriteOperation::Remove), _ => Some(WriteOperation::Insert(any_value())) } }
/// the abstract view of a key: what a read must answer = pending op if any, else the base
#[cfg(kani)]
fn view(p: &Option<WriteOperation>, base: Option<Value>) -> Option<Value> { match p { Some(WriteOperation::Insert(v)) => Some(*v), Some(WriteOperation::Remove) => None, None => base } }
#[cfg(kani)]
fn pending_of(tx: &InMemoryTransaction<Base>, col: u32, k: u8) -> Option<WriteOperation> { tx.changes.get(&col).and_then(|b| b.get(&[k][..])).cloned() }

/// a transaction over the base with arbitrary pending operations on keys A and B of the column
#[cfg(kani)]
fn any_tx() -> (InMemoryTransaction<Base>, u8, u8, u32) {
    let col: u32 = kani::any(); let ka: u8 = kani::any(); let kb: u8 = kani::any();
    kani::assume(ka != kb);
    let base = Base { col, ka, va: if kani::any() { Some(any_value()) } else { None }, kb, vb: if kani::any() { Some(any_value()) } else { None }, reads: Cell::new(0) };
    let mut inner: BTreeMap<ReferenceBytesKey, WriteOperation> = BTreeMap::default();
    if let Some(op) = any_op() { inner.insert(ReferenceBytesKey(ka), op); }
    if let Some(op) = any_op() { inner.insert(ReferenceBytesKey(kb), op); }
    let mut changes: Changes = BTreeMap::default();
    if kani::any() || inner.len() > 0 { changes.insert(col, inner); }
    (InMemoryTransaction { changes, policy: ConflictPolicy::Overwrite, storage: base }, ka, kb, col)
}

// ---- reads: pending write / removal if there is one, otherwise the underlying storage
//@ harness kind=bounded tier=quick bound="<= 2 pending keys per column, values <= 3 bytes, 1-byte keys" timeout=900 extra="--default-unwind 5"
#[cfg(kani)] #[kani::proof] #[kani::stub(alloc::fmt::format, fmt_stub)]
fn c10_reads() {
    let (tx, ka, kb, col) = any_tx();
    let pa = pending_of(&tx, col, ka);
    let want = view(&pa, tx.storage.va);
    let key = [ka];
    kani::cover!(matches!(pa, Some(WriteOperation::Remove)) && tx.storage.va.is_some(), "[C10.storage-tx.read.cover-pending-removal-hides-stored-value]");
    kani::assert(tx.get(&key, Col(col)).unwrap() == want, "[C10.storage-tx.read.get-returns-pending-write-or-removal-else-underlying]");
    kani::assert(tx.exists(&key, Col(col)).unwrap() == want.is_some(), "[C10.storage-tx.read.exists-agrees-with-get]");
    kani::assert(tx.size_of_value(&key, Col(col)).unwrap() == want.map(|v| v.len()), "[C10.storage-tx.read.size-agrees-with-get]");
    // a pending operation is answered without asking the underlying storage
    let r0 = tx.storage.reads.get();
    let _ = tx.get(&key, Col(col));
    kani::assert(pa.is_none() == (tx.storage.reads.get() > r0), "[C10.storage-tx.read.underlying-storage-consulted-only-without-pending-operation]");
    // reads with offset into a pending value
    if let Some(WriteOperation::Insert(v)) = pa {
        let off: usize = kani::any(); kani::assume(off <= 4);
        let mut buf = [0xAAu8; 2];
        let r = tx.read_exact(&key, Col(col), off, &mut buf).unwrap();
        if off + 2 <= v.len() { kani::assert(r == Ok(2) && buf[0] == v.b[off] && buf[1] == v.b[off + 1], "[C10.storage-tx.read.read-exact-copies-the-requested-window]"); }
        else { kani::assert(r == Err(StorageReadError::OutOfBounds) && buf == [0xAA; 2], "[C10.storage-tx.read.read-exact-out-of-bounds-leaves-buffer]"); }
        let mut buf2 = [0xAAu8; 2];
        let r2 = tx.read_zerofill(&key, Col(col), off, &mut buf2).unwrap();
        if off <= v.len() {
            let e0 = if off < v.len() { v.b[off] } else { 0 }; let e1 = if off + 1 < v.len() { v.b[off + 1] } else { 0 };
            kani::assert(r2 == Ok(v.len()) && buf2 == [e0, e1], "[C10.storage-tx.read.read-zerofill-copies-what-exists-and-zero-fills-the-rest]");
        } else { kani::assert(r2 == Err(StorageReadError::OutOfBounds), "[C10.storage-tx.read.read-zerofill-offset-past-the-end-is-out-of-bounds]"); }
    }
    if let Some(WriteOperation::Remove) = pa {
        let mut buf = [0u8; 1];
        kani::assert(tx.read_exact(&key, Col(col), 0, &mut buf).unwrap() == Err(StorageReadError::KeyNotFound), "[C10.storage-tx.read.pending-removal-reads-as-not-found]");
    }
}

// ---- writes: exactly one key of the view changes; replace / take return what a read would have answered
#[cfg(kani)]
fn writes_case(op: u8) {
    let (mut tx, ka, kb, col) = any_tx();
    let (va0, vb0) = (tx.storage.va, tx.storage.vb);
    let before_a = view(&pending_of(&tx, col, ka), va0);
    let before_b = view(&pending_of(&tx, col, kb), vb0);
    let v = any_value();
    let key = [ka];
    let (want_a, want_ret): (Option<Value>, Option<Option<Value>>) = match op { 0 | 2 => (Some(v), None), 1 => (Some(v), Some(before_a)), 3 => (None, Some(before_a)), _ => (None, None) };
    let ret: Option<Option<Value>> = match op {
        0 => { tx.put(&key, Col(col), v).unwrap(); None }
        1 => Some(tx.replace(&key, Col(col), v).unwrap()),
        2 => { let n = tx.write(&key, Col(col), v.as_ref()).unwrap(); kani::assert(n == v.len(), "[C10.storage-tx.write.write-reports-the-bytes-written]"); None }
        3 => Some(tx.take(&key, Col(col)).unwrap()),
        _ => { tx.delete(&key, Col(col)).unwrap(); None }
    };
    if op == 3 { kani::cover!(before_a.is_some(), "[C10.storage-tx.write.cover-take-of-existing]"); }
    kani::assert(ret == want_ret, "[C10.storage-tx.write.replace-and-take-return-the-previous-view-of-the-key]");
    kani::assert(tx.get(&key, Col(col)).unwrap() == want_a, "[C10.storage-tx.write.the-written-key-reads-back-the-new-value-or-absence]");
    kani::assert(tx.get(&[kb], Col(col)).unwrap() == before_b, "[C10.storage-tx.write.every-other-key-is-unchanged]");
    kani::assert(tx.storage.va == va0 && tx.storage.vb == vb0, "[C10.storage-tx.write.underlying-storage-untouched-until-commit]");
    let other_col = col ^ 1;
    kani::assert(tx.get(&key, Col(other_col)).unwrap().is_none(), "[C10.storage-tx.write.other-columns-are-unchanged]");
}

//@ harness kind=bounded tier=quick bound="<= 2 pending keys per column, values <= 3 bytes, 1-byte keys" timeout=900 extra="--default-unwind 5"
#[cfg(kani)] #[kani::proof] #[kani::stub(alloc::fmt::format, fmt_stub)]
fn c10_write_put() { writes_case(0); }
//@ harness kind=bounded tier=quick bound="<= 2 pending keys per column, values <= 3 bytes, 1-byte keys" timeout=900 extra="--default-unwind 5"
#[cfg(kani)] #[kani::proof] #[kani::stub(alloc::fmt::format, fmt_stub)]
fn c10_write_replace() { writes_case(1); }
//@ harness kind=bounded tier=quick bound="<= 2 pending keys per column, values <= 3 bytes, 1-byte keys" timeout=900 extra="--default-unwind 5"
#[cfg(kani)] #[kani::proof] #[kani::stub(alloc::fmt::format, fmt_stub)]
fn c10_write_write() { writes_case(2); }
//@ harness kind=bounded tier=quick bound="<= 2 pending keys per column, values <= 3 bytes, 1-byte keys" timeout=900 extra="--default-unwind 5"
#[cfg(kani)] #[kani::proof] #[kani::stub(alloc::fmt::format, fmt_stub)]
fn c10_write_take() { writes_case(3); }
//@ harness kind=bounded tier=quick bound="<= 2 pending keys per column, values <= 3 bytes, 1-byte keys" timeout=900 extra="--default-unwind 5"
#[cfg(kani)] #[kani::proof] #[kani::stub(alloc::fmt::format, fmt_stub)]
fn c10_write_delete() { writes_case(4); }

// ---- merging a child's changes into its parent: Overwrite applies exactly the child's net changes; Fail rejects exactly when both wrote the same key
#[cfg(kani)]
fn commit_case(fail_policy: bool, child_writes_a: bool, child_writes_b: bool) {
    let (mut parent, ka, kb, col) = any_tx();
    parent.policy = if fail_policy { ConflictPolicy::Fail } else { ConflictPolicy::Overwrite };
    let (pa, pb) = (pending_of(&parent, col, ka), pending_of(&parent, col, kb));
    // the child's changes: arbitrary operations on A and B, possibly in another column too
    let (ca, cb) = (if child_writes_a { let o = any_op(); kani::assume(o.is_some()); o } else { None }, if child_writes_b { let o = any_op(); kani::assume(o.is_some()); o } else { None });
    let mut inner: BTreeMap<ReferenceBytesKey, WriteOperation> = BTreeMap::default();
    if let Some(op) = ca.clone() { inner.insert(ReferenceBytesKey(ka), op); }
    if let Some(op) = cb.clone() { inner.insert(ReferenceBytesKey(kb), op); }
    let mut child: Changes = BTreeMap::default();
    if ca.is_some() || cb.is_some() { child.insert(col, inner); }
    let r = parent.commit_changes(child);
    let conflict = (pa.is_some() && ca.is_some()) || (pb.is_some() && cb.is_some());
    if fail_policy && child_writes_a { kani::cover!(r.is_err(), "[C10.storage-tx.commit.cover-conflict-rejected]"); }
    if child_writes_a && !child_writes_b { kani::cover!(r.is_ok() && pb.is_some(), "[C10.storage-tx.commit.cover-disjoint-merge]"); }
    kani::assert(r.is_ok() == !(fail_policy && conflict), "[C10.storage-tx.commit.fail-policy-rejects-exactly-when-both-wrote-the-same-key]");
    if r.is_ok() {
        let (na, nb) = (pending_of(&parent, col, ka), pending_of(&parent, col, kb));
        kani::assert(na == (if ca.is_some() { ca } else { pa }) && nb == (if cb.is_some() { cb } else { pb }), "[C10.storage-tx.commit.parent-holds-exactly-the-childs-net-changes-over-its-own]");
    }
    core::mem::forget(r);
}

//@ harness kind=bounded tier=quick bound="<= 2 pending keys per column, values <= 3 bytes, 1-byte keys" timeout=2400 extra="--default-unwind 5"
#[cfg(kani)] #[kani::proof] #[kani::stub(alloc::fmt::format, fmt_stub)]
fn c10_commit_overwrite_00() { commit_case(false, false, false); }
//@ harness kind=bounded tier=quick bound="<= 2 pending keys per column, values <= 3 bytes, 1-byte keys" timeout=2400 extra="--default-unwind 5"
#[cfg(kani)] #[kani::proof] #[kani::stub(alloc::fmt::format, fmt_stub)]
fn c10_commit_overwrite_01() { commit_case(false, false, true); }
//@ harness kind=bounded tier=quick bound="<= 2 pending keys per column, values <= 3 bytes, 1-byte keys" timeout=2400 extra="--default-unwind 5"
#[cfg(kani)] #[kani::proof] #[kani::stub(alloc::fmt::format, fmt_stub)]
fn c10_commit_overwrite_10() { commit_case(false, true, false); }
//@ harness kind=bounded tier=quick bound="<= 2 pending keys per column, values <= 3 bytes, 1-byte keys" timeout=2400 extra="--default-unwind 5"
#[cfg(kani)] #[kani::proof] #[kani::stub(alloc::fmt::format, fmt_stub)]
fn c10_commit_overwrite_11() { commit_case(false, true, true); }
//@ harness kind=bounded tier=quick bound="<= 2 pending keys per column, values <= 3 bytes, 1-byte keys" timeout=2400 extra="--default-unwind 5"
#[cfg(kani)] #[kani::proof] #[kani::stub(alloc::fmt::format, fmt_stub)]
fn c10_commit_fail_00() { commit_case(true, false, false); }
//@ harness kind=bounded tier=quick bound="<= 2 pending keys per column, values <= 3 bytes, 1-byte keys" timeout=2400 extra="--default-unwind 5"
#[cfg(kani)] #[kani::proof] #[kani::stub(alloc::fmt::format, fmt_stub)]
fn c10_commit_fail_01() { commit_case(true, false, true); }
//@ harness kind=bounded tier=quick bound="<= 2 pending keys per column, values <= 3 bytes, 1-byte keys" timeout=2400 extra="--default-unwind 5"
#[cfg(kani)] #[kani::proof] #[kani::stub(alloc::fmt::format, fmt_stub)]
fn c10_commit_fail_10() { commit_case(true, true, false); }
//@ harness kind=bounded tier=quick bound="<= 2 pending keys per column, values <= 3 bytes, 1-byte keys" timeout=2400 extra="--default-unwind 5"
#[cfg(kani)] #[kani::proof] #[kani::stub(alloc::fmt::format, fmt_stub)]
fn c10_commit_fail_11() { commit_case(true, true, true); }

// Vacuity canary: "a write is never visible" must FAIL.
//@ harness kind=canary tier=quick expect=C10.storage-tx.canary.writes-invisible timeout=900 extra="--default-unwind 5"
#[cfg(kani)] #[kani::proof] #[kani::stub(alloc::fmt::format, fmt_stub)]
fn c10_canary() {
    let (mut tx, ka, _kb, col) = any_tx();
    let before = tx.get(&[ka], Col(col)).unwrap();
    tx.put(&[ka], Col(col), any_value()).unwrap();
    kani::assert(tx.get(&[ka], Col(col)).unwrap() == before, "[C10.storage-tx.canary.writes-invisible]");
}
