// Contract harnesses for crates/fuel-gas-price-algorithm/src/utils.rs
use super::*;

// Totality ("the estimate is computed without failing"): for every (price, for_height, percentage,
// height) the function returns - no index out of bounds on the precomputed table, no overflow trap.
// Loop-free, full domain => complete.
//@ harness kind=proof tier=quick
#[kani::proof]
fn c35_total() {
    let price: u64 = kani::any();
    let for_height: u32 = kani::any();
    let pct: u64 = kani::any();
    let height: u32 = kani::any();
    let blocks = height.saturating_sub(for_height);
    kani::cover!(blocks == 25 && pct <= 25, "[C35.gas-worst-case.total.cover-horizon-25]");
    kani::cover!(pct == 25 && blocks <= 25, "[C35.gas-worst-case.total.cover-percentage-25]");
    kani::cover!(blocks > 25 && pct > 25, "[C35.gas-worst-case.total.cover-outside-table]");
    let r = cumulative_percentage_change(price, for_height, pct, height);
    // zero horizon in the table region: the estimate is at least the current price
    kani::assert(!(blocks == 0 && pct < 25) || r >= price || price > (1u64 << 53), "[C35.gas-worst-case.total.zero-horizon-not-below-price]");
}

/// The price obtained by applying the maximal per-block increase (integer arithmetic, rounding down,
/// saturating like AlgorithmUpdaterV1::exec_change / update_exec_gas_price) once per block.
fn compound(price: u64, pct: u64, blocks: u32) -> u64 {
    let mut p = price;
    let mut i = 0;
    while i < blocks {
        p = p.saturating_add(p.saturating_mul(pct) / 100);
        i += 1;
    }
    p
}

const EXACT_F64: u64 = 1u64 << 53;
const CUTOFF: u64 = 16948547188989277;

// One table row (fixed horizon), every percentage column and every u64 price at once.
fn row_bound(blocks: u32) {
    let pct: u64 = kani::any();
    kani::assume(pct < 25);
    cell_bound(blocks, pct)
}

fn cell_bound(blocks: u32, pct: u64) {
    let price: u64 = kani::any();
    let base: u32 = kani::any();
    kani::assume(base <= u32::MAX - blocks);
    let est = cumulative_percentage_change(price, base, pct, base + blocks);
    let exact = compound(price, pct, blocks);
    kani::cover!(pct == 24 && price > 1_000_000, "[C35.gas-worst-case.table.cover-row]");
    // results that f64 represents exactly (below 2^53): the estimate must bound the compounded price
    kani::assert(exact > EXACT_F64 || est >= exact, "[C35.gas-worst-case.table.estimate-at-least-compounded-price]");
    // results between 2^53 and the code's ROUNDING_ERROR_CUTOFF: f64 spacing is 2 and no compensation is added
    kani::assert(!(exact > EXACT_F64 && exact <= CUTOFF) || est >= exact,
        "[C35.gas-worst-case.table.estimate-at-least-compounded-price.result-between-2pow53-and-cutoff]");
    // results above the cutoff (the code adds 2000 there)
    kani::assert(exact <= CUTOFF || est >= exact,
        "[C35.gas-worst-case.table.estimate-at-least-compounded-price.result-above-cutoff]");
}

//@ harness kind=proof tier=quick timeout=900 extra="--default-unwind 26"
#[kani::proof]
fn c35_row_0() { row_bound(0); }

// Rows >= 1 (float product of a symbolic 64-bit price with a table constant compared against a chain of
// 64-bit divisions) did not finish in CBMC within 15 min per *cell*; they are NOT decided (see DESIGN.md C35).

// The table itself: for every percentage column the multiplier is >= 1 and does not decrease with the
// horizon (so, the f64 product and ceil being monotone, the table-region estimate does not decrease
// as the horizon grows). Symbolic indices over the whole 25x25 table => complete.
//@ harness kind=proof tier=quick
#[kani::proof]
fn c35_table_monotone() {
    let b: usize = kani::any();
    let p: usize = kani::any();
    kani::assume(b < BLOCK_COUNT_M - 1 && p < PERCENTAGE_COUNT_N);
    kani::cover!(b == 23 && p == 24, "[C35.gas-worst-case.table.cover-last-cell]");
    kani::assert(PRECOMPUTED_EXP[b][p] >= 1.0, "[C35.gas-worst-case.table.multiplier-at-least-one]");
    kani::assert(PRECOMPUTED_EXP[b][p] <= PRECOMPUTED_EXP[b + 1][p], "[C35.gas-worst-case.table.multiplier-nondecreasing-in-horizon]");
    kani::assert(PRECOMPUTED_EXP[0][p] == 1.0, "[C35.gas-worst-case.table.zero-horizon-multiplier-is-one]");
}
