// Contract harnesses for crates/fuel-gas-price-algorithm/src/v1.rs (child module: private methods and
// fields reachable). Modular chain: each callee has its own contract harness; callers are verified
// against *recording stubs* of their callees (unconstrained result, recorded in a ghost static), so
// a caller's obligation never contains a 64/128-bit product (DESIGN.md 2.9).
use super::*;

fn any_tracker() -> L2ActivityTracker {
    let t = L2ActivityTracker {
        max_activity: kani::any(),
        capped_activity_threshold: kani::any(),
        decrease_activity_threshold: kani::any(),
        chain_activity: kani::any(),
        block_activity_threshold: ClampedPercentage { value: kani::any() },
    };
    kani::assume(t.block_activity_threshold.value <= 100); // type invariant of ClampedPercentage
    t
}

/// Every field unconstrained except the type invariants (NonZeroU64, ClampedPercentage <= 100).
fn any_updater() -> AlgorithmUpdaterV1 {
    let f: u64 = kani::any();
    kani::assume(f != 0);
    let thr: u8 = kani::any();
    kani::assume(thr <= 100);
    AlgorithmUpdaterV1 {
        new_scaled_exec_price: kani::any(),
        min_exec_gas_price: kani::any(),
        exec_gas_price_change_percent: kani::any(),
        l2_block_height: kani::any(),
        l2_block_fullness_threshold_percent: ClampedPercentage { value: thr },
        new_scaled_da_gas_price: kani::any(),
        gas_price_factor: NonZeroU64::new(f).unwrap(),
        min_da_gas_price: kani::any(),
        max_da_gas_price: kani::any(),
        max_da_gas_price_change_percent: kani::any(),
        total_da_rewards: kani::any(),
        latest_known_total_da_cost: kani::any(),
        projected_total_da_cost: kani::any(),
        da_p_component: kani::any(),
        da_d_component: kani::any(),
        last_profit: kani::any(),
        second_to_last_profit: kani::any(),
        latest_da_cost_per_byte: kani::any(),
        l2_activity: any_tracker(),
        unrecorded_blocks_bytes: kani::any(),
    }
}

// ---------------------------------------------------------------------------------------------
// ghost statics written by the recording stubs
static mut G_EXEC_CHANGE: u64 = 0;
static mut G_EXEC_CHANGE_ARG: u64 = 0;
static mut G_EXEC_CHANGE_CALLS: u32 = 0;
static mut G_MAX_CHANGE: i128 = 0;
static mut G_DA_CHANGE: i128 = 0;
static mut G_MIN_DA: u64 = 0;
static mut G_MAX_DA: u64 = 0;
static mut G_MIN_EXEC: u64 = 0;
static mut G_CALLS_EXEC_UPDATE: u32 = 0;
static mut G_CALLS_DA_UPDATE: u32 = 0;
static mut G_EXEC_SET: u64 = 0;
static mut G_DA_SET: u64 = 0;

// The ghost values are chosen by the harness BEFORE the call (choose_ghosts); the stubs only hand them out, so a
// postcondition can mention "the minimum" even on a path where the code forgets to ask for it.
fn choose_ghosts() {
    let mc: i128 = kani::any();
    kani::assume(mc >= 0 && mc <= (u64::MAX / 100) as i128);      // contract of max_change (c34_max_change)
    let dc: i128 = kani::any();
    kani::assume(dc >= -mc && dc <= mc);                           // contract of da_change (c34_da_change / Verus)
    let lo: u64 = kani::any();
    let hi: u64 = kani::any();
    kani::assume(hi >= lo);                                        // Verus: lemma_max_scaled_at_least_min_scaled
    unsafe {
        G_EXEC_CHANGE = kani::any(); G_EXEC_CHANGE_ARG = 0; G_EXEC_CHANGE_CALLS = 0;
        G_MAX_CHANGE = mc; G_DA_CHANGE = dc; G_MIN_DA = lo; G_MAX_DA = hi; G_MIN_EXEC = kani::any();
    }
}
fn stub_exec_change(_s: &AlgorithmUpdaterV1, principle: u64) -> u64 {
    unsafe { G_EXEC_CHANGE_ARG = principle; G_EXEC_CHANGE_CALLS += 1; G_EXEC_CHANGE }
}
fn stub_max_change(_s: &AlgorithmUpdaterV1) -> i128 { unsafe { G_MAX_CHANGE } }
fn stub_da_change(_s: &AlgorithmUpdaterV1, _p: i128, _d: i128) -> i128 { unsafe { G_DA_CHANGE } }
fn stub_pd(_s: &AlgorithmUpdaterV1) -> i128 { kani::any() }
fn stub_min_da(_s: &AlgorithmUpdaterV1) -> u64 { unsafe { G_MIN_DA } }
fn stub_max_da(_s: &AlgorithmUpdaterV1) -> u64 { unsafe { G_MAX_DA } }
fn stub_min_exec(_s: &AlgorithmUpdaterV1) -> u64 { unsafe { G_MIN_EXEC } }

// ---------------------------------------------------------------------------------------------
// exec_change: r == min(principle * pct, u64::MAX) / 100   (so r <= principle * pct / 100)
//@ harness kind=proof tier=quick timeout=900
#[kani::proof]
fn c34_exec_change() {
    let u = any_updater();
    let principle: u64 = kani::any();
    let r = u.exec_change(principle);
    let exact = (principle as u128) * (u.exec_gas_price_change_percent as u128);
    let capped = if exact > u64::MAX as u128 { u64::MAX as u128 } else { exact };
    kani::cover!(exact > u64::MAX as u128, "[C34.gas-v1.exec_change.cover-saturated]");
    kani::assert(r as u128 == capped / 100, "[C34.gas-v1.exec_change.is-configured-percentage-of-price-rounded-down]");
    kani::assert((r as u128) * 100 <= exact, "[C34.gas-v1.exec_change.at-most-configured-percentage]");
}

// update_exec_gas_price (exec_change, min_scaled_exec_gas_price abstracted by recording stubs)
//@ harness kind=proof tier=quick
#[kani::proof]
#[kani::stub(AlgorithmUpdaterV1::exec_change, stub_exec_change)]
#[kani::stub(AlgorithmUpdaterV1::min_scaled_exec_gas_price, stub_min_exec)]
fn c34_update_exec_gas_price() {
    choose_ghosts();
    let mut u = any_updater();
    let used: u64 = kani::any();
    let cap: u64 = kani::any();
    kani::assume(cap != 0);
    let old = u.new_scaled_exec_price;
    let old_da = u.new_scaled_da_gas_price;
    u.update_exec_gas_price(used, NonZeroU64::new(cap).unwrap());
    let new = u.new_scaled_exec_price;
    let (chg, arg, calls, floor) = unsafe { (G_EXEC_CHANGE, G_EXEC_CHANGE_ARG, G_EXEC_CHANGE_CALLS, G_MIN_EXEC) };
    kani::cover!(new > old, "[C34.gas-v1.update_exec.cover-increase]");
    kani::cover!(new < old && new > floor, "[C34.gas-v1.update_exec.cover-decrease]");
    kani::assert(new >= floor, "[C34.gas-v1.update_exec.never-below-minimum]");
    kani::assert(calls == 1 && arg == old, "[C34.gas-v1.update_exec.change-computed-once-from-current-price]");
    let diff = if new >= old { new - old } else { old - new };
    kani::assert(diff <= chg || new == floor, "[C34.gas-v1.update_exec.moves-at-most-the-configured-change-unless-clamped-to-minimum]");
    // exactness: max(floor, old +/- change) saturating; the direction follows block fullness vs threshold
    let up = old.saturating_add(chg);
    let down = old.saturating_sub(chg);
    kani::assert(new == (if up > floor { up } else { floor }) || new == (if down > floor { down } else { floor }),
        "[C34.gas-v1.update_exec.is-old-price-plus-or-minus-change-floored-at-minimum]");
    kani::assert(u.new_scaled_da_gas_price == old_da, "[C34.gas-v1.update_exec.frame-da-price-untouched]");
}

// max_change: r == min(da_price * pct, u64::MAX) / 100, never negative
//@ harness kind=proof tier=quick timeout=900
#[kani::proof]
fn c34_max_change() {
    let u = any_updater();
    let r = u.max_change();
    let exact = (u.new_scaled_da_gas_price as u128) * (u.max_da_gas_price_change_percent as u128);
    let capped = if exact > u64::MAX as u128 { u64::MAX as u128 } else { exact };
    kani::cover!(r > 0, "[C34.gas-v1.max_change.cover-positive]");
    kani::assert(r >= 0 && r <= (u64::MAX / 100) as i128, "[C34.gas-v1.max_change.nonnegative-and-bounded]");
    kani::assert(r as u128 == capped / 100, "[C34.gas-v1.max_change.is-configured-percentage-of-da-price-rounded-down]");
    kani::assert((r as u128) * 100 <= exact, "[C34.gas-v1.max_change.at-most-configured-percentage]");
}

// da_change: |r| <= max_change()  (i128 saturating product: bit-precise proof is slow -> thorough tier;
// the quick tier proves the same clause with Verus on the extracted text)
//@ harness kind=proof tier=thorough solver=kissat timeout=1800
#[kani::proof]
#[kani::stub(AlgorithmUpdaterV1::max_change, stub_max_change)]
fn c34_da_change() {
    choose_ghosts();
    let u = any_updater();
    let p: i128 = kani::any();
    let d: i128 = kani::any();
    let r = u.da_change(p, d);
    let mc = unsafe { G_MAX_CHANGE };
    kani::cover!(r == mc && mc > 0, "[C34.gas-v1.da_change.cover-clamped]");
    kani::assert(r >= -mc && r <= mc, "[C34.gas-v1.da_change.magnitude-at-most-max-change]");
}

// da_change_accounting_for_activity (max_change abstracted)
//@ harness kind=proof tier=quick
#[kani::proof]
#[kani::stub(AlgorithmUpdaterV1::max_change, stub_max_change)]
fn c34_da_change_activity() {
    choose_ghosts();
    let u = any_updater();
    let c: i128 = kani::any();
    let r = u.da_change_accounting_for_activity(c);
    let mc = unsafe { G_MAX_CHANGE };
    kani::cover!(c > 0 && r < 0, "[C34.gas-v1.da_activity.cover-always-decrease]");
    kani::cover!(c > 0 && r == 0, "[C34.gas-v1.da_activity.cover-capped]");
    // the activity adjustment never increases the proposed change and never exceeds max(|c|, max_change)
    kani::assert(r <= c, "[C34.gas-v1.da_activity.never-raises-the-change]");
    kani::assert(r == c || r == 0 || r == -mc, "[C34.gas-v1.da_activity.is-change-or-zero-or-minus-max-change]");
    kani::assert(c > 0 || r == c, "[C34.gas-v1.da_activity.non-positive-change-unchanged]");
}

// update_da_gas_price (p, d, da_change, max_change, min/max scaled abstracted)
//@ harness kind=proof tier=quick
#[kani::proof]
#[kani::stub(AlgorithmUpdaterV1::p, stub_pd)]
#[kani::stub(AlgorithmUpdaterV1::d, stub_pd)]
#[kani::stub(AlgorithmUpdaterV1::da_change, stub_da_change)]
#[kani::stub(AlgorithmUpdaterV1::max_change, stub_max_change)]
#[kani::stub(AlgorithmUpdaterV1::min_scaled_da_gas_price, stub_min_da)]
#[kani::stub(AlgorithmUpdaterV1::max_scaled_da_gas_price, stub_max_da)]
fn c34_update_da_gas_price() {
    choose_ghosts();
    let mut u = any_updater();
    let old = u.new_scaled_da_gas_price;
    let old_exec = u.new_scaled_exec_price;
    u.update_da_gas_price();
    let new = u.new_scaled_da_gas_price;
    let (lo, hi, mc) = unsafe { (G_MIN_DA, G_MAX_DA, G_MAX_CHANGE) };
    kani::cover!(new > old && new < hi, "[C34.gas-v1.update_da.cover-increase-unclamped]");
    kani::cover!(new < old && new > lo, "[C34.gas-v1.update_da.cover-decrease-unclamped]");
    kani::assert(new >= lo && new <= hi, "[C34.gas-v1.update_da.stays-between-minimum-and-maximum]");
    let diff = (if new >= old { new - old } else { old - new }) as i128;
    kani::assert(diff <= mc || new == lo || new == hi, "[C34.gas-v1.update_da.moves-at-most-max-change-unless-clamped]");
    // exactness (clamping never reverses the direction): the new price is clamp(old + c, lo, hi) for the change c that
    // da_change proposed (dc), possibly replaced by 0 or -max_change by the activity adjustment; a non-positive dc is kept
    let dc = unsafe { G_DA_CHANGE };
    let clamp = |c: i128| -> u64 {
        let ideal = old as i128 + c;
        let v = if ideal < 0 { 0u64 } else if ideal > u64::MAX as i128 { u64::MAX } else { ideal as u64 };
        if v < lo { lo } else if v > hi { hi } else { v }
    };
    kani::assert(new == clamp(dc) || (dc > 0 && (new == clamp(0) || new == clamp(-mc))), "[C34.gas-v1.update_da.is-old-price-plus-bounded-change-clamped-to-bounds]");
    kani::assert(u.new_scaled_exec_price == old_exec, "[C34.gas-v1.update_da.frame-exec-price-untouched]");
}

// p, d: total (division by zero and i128::MIN / -1 handled)
//@ harness kind=proof tier=thorough timeout=1800
#[kani::proof]
fn c34_p_d_total() {
    let u = any_updater();
    let _p = u.p();
    let _d = u.d();
    kani::cover!(u.da_p_component == 0, "[C34.gas-v1.p_d.cover-zero-component]");
    kani::assert(u.da_p_component != 0 || _p == 0, "[C34.gas-v1.p_d.zero-component-gives-zero]");
}

fn stub_update_exec(s: &mut AlgorithmUpdaterV1, _used: u64, _cap: NonZeroU64) {
    let v: u64 = kani::any();
    s.new_scaled_exec_price = v;
    unsafe { G_CALLS_EXEC_UPDATE += 1; G_EXEC_SET = v; }
}
fn stub_update_da(s: &mut AlgorithmUpdaterV1) {
    let v: u64 = kani::any();
    s.new_scaled_da_gas_price = v;
    unsafe { G_CALLS_DA_UPDATE += 1; G_DA_SET = v; }
}
fn stub_update_da_rewards(s: &mut AlgorithmUpdaterV1, _fee: u128) { s.total_da_rewards = kani::any(); }
fn stub_update_projected(s: &mut AlgorithmUpdaterV1, _b: u64) { s.projected_total_da_cost = kani::any(); }
fn stub_update_activity(s: &mut AlgorithmUpdaterV1, _u: u64, _c: NonZeroU64) { s.l2_activity.chain_activity = kani::any(); }

/// A mock UnrecordedBlocks with nondeterministic results (only the port's signature is assumed).
struct AnyBlocks;
impl UnrecordedBlocks for AnyBlocks {
    fn insert(&mut self, _h: Height, _b: Bytes) -> Result<(), String> {
        if kani::any() { Ok(()) } else { Err(String::new()) }
    }
    fn remove(&mut self, _h: &Height) -> Result<Option<Bytes>, String> {
        if kani::any() { Ok(if kani::any() { Some(kani::any()) } else { None }) } else { Err(String::new()) }
    }
}

// update_l2_block_data: non-consecutive heights are rejected and change nothing; on the accepted path
// the two prices are exactly what update_exec_gas_price / update_da_gas_price produced (each called once)
//@ harness kind=proof tier=quick
#[kani::proof]
#[kani::stub(AlgorithmUpdaterV1::update_exec_gas_price, stub_update_exec)]
#[kani::stub(AlgorithmUpdaterV1::update_da_gas_price, stub_update_da)]
#[kani::stub(AlgorithmUpdaterV1::update_da_rewards, stub_update_da_rewards)]
#[kani::stub(AlgorithmUpdaterV1::update_projected_da_cost, stub_update_projected)]
#[kani::stub(AlgorithmUpdaterV1::update_activity, stub_update_activity)]
fn c34_update_l2_block_data() {
    let mut u = any_updater();
    kani::assume(u.l2_block_height < u32::MAX);
    let before = u.clone();
    let height: u32 = kani::any();
    let used: u64 = kani::any();
    let cap: u64 = kani::any();
    kani::assume(cap != 0);
    let mut blocks = AnyBlocks;
    let r = u.update_l2_block_data(height, used, NonZeroU64::new(cap).unwrap(), kani::any(), kani::any(), &mut blocks);
    let consecutive = height == before.l2_block_height + 1;
    kani::cover!(r.is_ok(), "[C34.gas-v1.update_l2.cover-accepted]");
    kani::cover!(!consecutive && height > before.l2_block_height, "[C34.gas-v1.update_l2.cover-skipped]");
    let rejected_skip = matches!(r, Err(Error::SkippedL2Block { .. }));
    kani::assert(consecutive != rejected_skip, "[C34.gas-v1.update_l2.rejected-iff-height-not-consecutive]");
    kani::assert(consecutive || u == before, "[C34.gas-v1.update_l2.rejected-update-changes-nothing]");
    let (ce, cd, es, ds) = unsafe { (G_CALLS_EXEC_UPDATE, G_CALLS_DA_UPDATE, G_EXEC_SET, G_DA_SET) };
    kani::assert(!consecutive || (ce == 1 && cd == 1), "[C34.gas-v1.update_l2.each-price-updated-exactly-once]");
    kani::assert(!consecutive || (u.new_scaled_exec_price == es && u.new_scaled_da_gas_price == ds),
        "[C34.gas-v1.update_l2.prices-are-what-the-bounded-updates-produced]");
    kani::assert(!r.is_ok() || u.l2_block_height == height, "[C34.gas-v1.update_l2.accepted-update-advances-height]");
    core::mem::forget(r);
}

fn stub_da_block_update<U: UnrecordedBlocks>(s: &mut AlgorithmUpdaterV1, _h: RangeInclusive<u32>, _b: u128, _c: u128, _u: &mut U) -> Result<(), Error> {
    s.latest_known_total_da_cost = kani::any();
    s.latest_da_cost_per_byte = kani::any();
    s.unrecorded_blocks_bytes = kani::any();
    if kani::any() { Ok(()) } else { Err(Error::L2BlockExpectedNotFound { height: 0 }) }
}
fn stub_recalc(s: &mut AlgorithmUpdaterV1) { s.projected_total_da_cost = kani::any(); }

// update_da_record_data: empty range changes nothing; otherwise the exec price is untouched and the DA
// price is what update_da_gas_price produced (called at most once)
//@ harness kind=proof tier=quick
#[kani::proof]
#[kani::stub(AlgorithmUpdaterV1::update_da_gas_price, stub_update_da)]
#[kani::stub(AlgorithmUpdaterV1::da_block_update, stub_da_block_update)]
#[kani::stub(AlgorithmUpdaterV1::recalculate_projected_cost, stub_recalc)]
fn c34_update_da_record_data() {
    let mut u = any_updater();
    let before = u.clone();
    let lo: u32 = kani::any();
    let hi: u32 = kani::any();
    let mut blocks = AnyBlocks;
    let r = u.update_da_record_data(lo..=hi, kani::any(), kani::any(), &mut blocks);
    let (cd, ds) = unsafe { (G_CALLS_DA_UPDATE, G_DA_SET) };
    kani::cover!(lo <= hi && r.is_ok(), "[C34.gas-v1.update_da_record.cover-recorded]");
    kani::assert(lo <= hi || (u == before && r.is_ok()), "[C34.gas-v1.update_da_record.empty-range-changes-nothing]");
    kani::assert(u.new_scaled_exec_price == before.new_scaled_exec_price, "[C34.gas-v1.update_da_record.frame-exec-price-untouched]");
    kani::assert(cd <= 1 && (cd == 0 || u.new_scaled_da_gas_price == ds) && (cd == 1 || u.new_scaled_da_gas_price == before.new_scaled_da_gas_price),
        "[C34.gas-v1.update_da_record.da-price-only-through-bounded-update]");
    kani::assert(u.l2_block_height == before.l2_block_height, "[C34.gas-v1.update_da_record.frame-height-untouched]");
    core::mem::forget(r);
}

// L2ActivityTracker::update: activity stays within [0, max_activity] and moves by at most one
//@ harness kind=proof tier=quick
#[kani::proof]
fn c34_activity_update() {
    let mut t = any_tracker();
    kani::assume(t.chain_activity <= t.max_activity);
    let before = t.chain_activity;
    let usage: u8 = kani::any();
    t.update(ClampedPercentage::new(usage));
    let after = t.chain_activity;
    kani::cover!(after < before, "[C34.gas-v1.activity.cover-decrease]");
    kani::assert(after <= t.max_activity, "[C34.gas-v1.activity.at-most-max-activity]");
    kani::assert((after as i32 - before as i32).abs() <= 1, "[C34.gas-v1.activity.moves-by-at-most-one]");
}

// Vacuity canary: "the exec price never changes" must FAIL.
//@ harness kind=canary tier=quick expect=C34.gas-v1.canary.exec-price-never-changes
#[kani::proof]
#[kani::stub(AlgorithmUpdaterV1::exec_change, stub_exec_change)]
#[kani::stub(AlgorithmUpdaterV1::min_scaled_exec_gas_price, stub_min_exec)]
fn c34_canary() {
    choose_ghosts();
    let mut u = any_updater();
    let old = u.new_scaled_exec_price;
    let cap: u64 = kani::any();
    kani::assume(cap != 0);
    u.update_exec_gas_price(kani::any(), NonZeroU64::new(cap).unwrap());
    kani::assert(u.new_scaled_exec_price == old, "[C34.gas-v1.canary.exec-price-never-changes]");
}
