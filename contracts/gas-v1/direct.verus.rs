// Verus direct verification of the *verbatim* text of integer functions of
// crates/fuel-gas-price-algorithm/src/v1.rs that multiply/divide two symbolic wide integers
// (CBMC does not finish on those, DESIGN.md 2.9). Function bodies are pasted from /repo on every run
// (//@ extract); only the result binder and the spec lines are added.
//
// TRUSTED in this file (each is the textbook meaning of a std item the bodies use):
//   * NonZeroU64 stand-in: a u64 that is never zero, with get(), Into<u64>, u64: Div<NonZeroU64>
//   * max/min on u64 (std::cmp::{max,min})
//   * assume_specification for i128/u64 saturating_* / checked_div / signum
use vstd::prelude::*;
use std::ops::Div;
verus! {

// ---- trusted stand-ins --------------------------------------------------------------------------
#[derive(Clone, Copy)]
pub struct NonZeroU64 { pub v: u64 }
impl NonZeroU64 {
    // the value; never zero by construction of the real type
    pub open spec fn val(self) -> u64 { if self.v == 0 { 1u64 } else { self.v } }
    #[verifier::external_body]
    pub fn get(self) -> (r: u64) ensures r == self.val(), r != 0 { self.v }
}
impl From<NonZeroU64> for u64 {
    #[verifier::external_body]
    fn from(x: NonZeroU64) -> (r: u64) ensures r == x.val(), r != 0 { x.v }
}
impl vstd::std_specs::ops::DivSpecImpl<NonZeroU64> for u64 {
    open spec fn obeys_div_spec() -> bool { true }
    open spec fn div_req(self, rhs: NonZeroU64) -> bool { true }
    open spec fn div_spec(self, rhs: NonZeroU64) -> u64 { (self / rhs.val()) as u64 }
}
impl Div<NonZeroU64> for u64 {
    type Output = u64;
    #[verifier::external_body]
    fn div(self, rhs: NonZeroU64) -> (r: u64) { self / rhs.v }
}
pub assume_specification[ <i128 as From<u64>>::from ](a: u64) -> (r: i128) ensures r == a;
fn max(a: u64, b: u64) -> (r: u64) ensures r == (if a >= b { a } else { b }) { if a >= b { a } else { b } }
fn min(a: u64, b: u64) -> (r: u64) ensures r == (if a <= b { a } else { b }) { if a <= b { a } else { b } }

pub open spec fn sat_u64(x: int) -> int { if x > u64::MAX as int { u64::MAX as int } else if x < 0 { 0 } else { x } }
pub open spec fn sat_i128(x: int) -> int { if x > i128::MAX as int { i128::MAX as int } else if x < i128::MIN as int { i128::MIN as int } else { x } }
pub open spec fn abs_int(x: int) -> int { if x < 0 { -x } else { x } }
pub open spec fn sgn(x: int) -> int { if x > 0 { 1 } else if x < 0 { -1 } else { 0 } }

pub assume_specification[ u64::saturating_div ](a: u64, b: u64) -> (r: u64)
    requires b != 0,
    ensures r == a / b;
pub assume_specification[ i128::saturating_mul ](a: i128, b: i128) -> (r: i128)
    ensures r as int == sat_i128(a as int * b as int);
pub assume_specification[ i128::saturating_add ](a: i128, b: i128) -> (r: i128)
    ensures r as int == sat_i128(a as int + b as int);
pub assume_specification[ i128::saturating_sub ](a: i128, b: i128) -> (r: i128)
    ensures r as int == sat_i128(a as int - b as int);
pub assume_specification[ i128::saturating_abs ](a: i128) -> (r: i128)
    ensures r as int == sat_i128(abs_int(a as int));
pub assume_specification[ i128::signum ](a: i128) -> (r: i128)
    ensures r as int == sgn(a as int);

// ---- the real type definitions (extracted) --------------------------------------------------------
//@ extract crates/fuel-gas-price-algorithm/src/v1.rs struct ClampedPercentage
//@ end
//@ extract crates/fuel-gas-price-algorithm/src/v1.rs struct L2ActivityTracker
//@ end
//@ extract crates/fuel-gas-price-algorithm/src/v1.rs struct AlgorithmUpdaterV1
//@ end
//@ extract crates/fuel-gas-price-algorithm/src/v1.rs struct AlgorithmV1
//@ end

pub open spec fn pct_of(price: u64, pct: u16) -> int { sat_u64(price as int * pct as int) / 100 }

impl AlgorithmUpdaterV1 {

//@ extract crates/fuel-gas-price-algorithm/src/v1.rs AlgorithmUpdaterV1::min_scaled_exec_gas_price
//@ ensures r as int == sat_u64(self.min_exec_gas_price as int * self.gas_price_factor.val() as int),
//@ end

//@ extract crates/fuel-gas-price-algorithm/src/v1.rs AlgorithmUpdaterV1::min_scaled_da_gas_price
//@ ensures r as int == sat_u64(self.min_da_gas_price as int * self.gas_price_factor.val() as int),
//@ end

//@ extract crates/fuel-gas-price-algorithm/src/v1.rs AlgorithmUpdaterV1::max_scaled_da_gas_price
//@ ensures r as int == sat_u64((if self.max_da_gas_price >= self.min_da_gas_price { self.max_da_gas_price } else { self.min_da_gas_price }) as int * self.gas_price_factor.val() as int),
//@ end

//@ extract crates/fuel-gas-price-algorithm/src/v1.rs AlgorithmUpdaterV1::max_change
//@ ensures r as int == pct_of(self.new_scaled_da_gas_price, self.max_da_gas_price_change_percent), r >= 0,
//@ end

//@ extract crates/fuel-gas-price-algorithm/src/v1.rs AlgorithmUpdaterV1::exec_change
//@ ensures r as int == pct_of(principle, self.exec_gas_price_change_percent),
//@ end

//@ extract crates/fuel-gas-price-algorithm/src/v1.rs AlgorithmUpdaterV1::da_change
//@ ensures abs_int(r as int) <= pct_of(self.new_scaled_da_gas_price, self.max_da_gas_price_change_percent),
//@         sgn(r as int) == sgn(sat_i128(sat_i128(p as int + d as int) * self.gas_price_factor.val() as int)) || r == 0,
//@ end

//@ extract crates/fuel-gas-price-algorithm/src/v1.rs AlgorithmUpdaterV1::p
//@ end

//@ extract crates/fuel-gas-price-algorithm/src/v1.rs AlgorithmUpdaterV1::d
//@ end

//@ extract crates/fuel-gas-price-algorithm/src/v1.rs AlgorithmUpdaterV1::descaled_exec_price
//@ ensures r == self.new_scaled_exec_price / self.gas_price_factor.val(),
//@ end

//@ extract crates/fuel-gas-price-algorithm/src/v1.rs AlgorithmUpdaterV1::descaled_da_price
//@ ensures r == self.new_scaled_da_gas_price / self.gas_price_factor.val(),
//@ end

//@ extract crates/fuel-gas-price-algorithm/src/v1.rs AlgorithmUpdaterV1::algorithm strip_pub=1
//@ ensures r.new_exec_price == self.new_scaled_exec_price / self.gas_price_factor.val(),
//@         r.new_da_gas_price == self.new_scaled_da_gas_price / self.gas_price_factor.val(),
//@         r.exec_price_percentage == self.exec_gas_price_change_percent, r.da_gas_price_percentage == self.max_da_gas_price_change_percent,
//@         r.for_height == self.l2_block_height,
//@ end

} // impl

// ---- consequences used by the Kani caller harnesses (recording stubs assume exactly these) ---------
pub proof fn lemma_max_scaled_at_least_min_scaled(min_da: u64, max_da: u64, f: u64)
    ensures sat_u64((if max_da >= min_da { max_da } else { min_da }) as int * f as int) >= sat_u64(min_da as int * f as int),
{
    let m = if max_da >= min_da { max_da } else { min_da };
    assert(m as int * f as int >= min_da as int * f as int) by (nonlinear_arith) requires m >= min_da, f >= 0;
}

// published price bounds: scaled >= min * f (no saturation)  ==>  scaled / f >= min
pub proof fn lemma_descaled_at_least_min(scaled: u64, min_p: u64, f: u64)
    requires f > 0, scaled as int >= min_p as int * f as int,
    ensures scaled as int / f as int >= min_p as int,
{
    assert(scaled as int / f as int >= min_p as int) by (nonlinear_arith)
        requires f > 0, scaled as int >= min_p as int * f as int;
}
pub proof fn lemma_descaled_at_most_max(scaled: u64, max_p: u64, f: u64)
    requires f > 0, scaled as int <= max_p as int * f as int,
    ensures scaled as int / f as int <= max_p as int,
{
    assert(scaled as int / f as int <= max_p as int) by (nonlinear_arith)
        requires f > 0, scaled as int <= max_p as int * f as int;
}

// percentage-of-price bound: pct_of(price, pct) * 100 <= price * pct
pub proof fn lemma_pct_of_at_most_percentage(price: u64, pct: u16)
    ensures pct_of(price, pct) * 100 <= price as int * pct as int, pct_of(price, pct) >= 0,
{
    let x = sat_u64(price as int * pct as int);
    assert(price as int * pct as int >= 0) by (nonlinear_arith) requires price >= 0, pct >= 0;
    assert((x / 100) * 100 <= x) by (nonlinear_arith) requires x >= 0;
}

} // verus!
fn main() {}
