// Scratch crate generated on every run. Pasted from /repo's current working tree (header and body byte for byte), all from
// crates/services/tx_status_manager/src/service.rs:
//   struct SignatureVerification, SignatureVerification::{verify_preconfirmation, remove_expired_delegates,
//   add_new_delegate, check_preconfirmation_signature}, Task::new_preconfirmations_from_p2p
// Stand-ins (trusted, listed in unit.toml): cryptography (secp256k1 recovery, ed25519 verification), postcard encoding and
// Input::owner are uninterpreted recording functions; Tai64::now is a harness clock; std HashMap is its map-semantics
// CONTRACT, exact for one probed expiration and nondeterministic for all other keys (so the proofs hold for any number of
// registered delegations); the p2p port and the status handler are recording mocks.
#![allow(unused)]
use core::cell::{Cell, RefCell};
use core::marker::PhantomData;

#[macro_export] macro_rules! __noop { ($($t:tt)*) => {{}} }
pub mod tracing { pub use crate::__noop as error; pub use crate::__noop as info; pub use crate::__noop as warn; pub use crate::__noop as debug; }

static mut NOW: u64 = 0;
#[derive(Clone, Copy, Debug, PartialEq, Eq, PartialOrd, Ord)]
pub struct Tai64(pub u64);
impl Tai64 { pub fn now() -> Tai64 { Tai64(unsafe { NOW }) } }
#[derive(Clone, Copy, Debug, PartialEq, Eq)] pub struct Address(pub u64);
#[derive(Clone, Copy, Debug, PartialEq, Eq)] pub struct PublicKey(pub u64);
pub struct Input;
impl Input { pub fn owner(k: &PublicKey) -> Address { Address(k.0 ^ 0x77) } }
/// encoded bytes of an entity: an opaque value that identifies the entity
#[derive(Clone, Copy, Debug, PartialEq, Eq)] pub struct Bytes(pub u64);
pub trait Encodable { fn tag(&self) -> u64; }
impl<T: Encodable> Encodable for &T { fn tag(&self) -> u64 { (**self).tag() } }
pub mod postcard { use super::*; pub fn to_allocvec<T: Encodable>(t: &T) -> Result<Bytes, EncodeError> { Ok(Bytes(t.tag())) } #[derive(Debug)] pub struct EncodeError; }
#[derive(Clone, Copy, Debug, PartialEq, Eq)] pub struct Message(pub u64);
impl Message { pub fn new(b: &Bytes) -> Message { Message(b.0) } }
#[derive(Debug)] pub struct CryptoError;
/// ed25519: a signature verifies under exactly one (key, bytes) pair
#[derive(Clone, Copy, Debug, PartialEq, Eq)] pub struct DelegatePublicKey(pub u64);
#[derive(Clone, Copy, Debug, PartialEq, Eq)] pub struct Bytes64 { pub signed_by: u64, pub over: u64 }
pub struct Signature { pub signed_by: u64, pub over: u64 }
impl Signature { pub fn from_bytes(b: &Bytes64) -> Signature { Signature { signed_by: b.signed_by, over: b.over } } }
impl DelegatePublicKey { pub fn verify(&self, bytes: &Bytes, sig: &Signature) -> Result<(), CryptoError> { if sig.signed_by == self.0 && sig.over == bytes.0 { Ok(()) } else { Err(CryptoError) } } }
/// secp256k1: recovery answers a key (or fails) that depends on the signature and the message
pub struct ProtocolSignature { pub signer: Option<u64>, pub over: u64 }
impl ProtocolSignature { pub fn recover(&self, m: &Message) -> Result<PublicKey, CryptoError> { match self.signer { Some(k) if self.over == m.0 => Ok(PublicKey(k)), Some(k) => Ok(PublicKey(k ^ m.0 ^ self.over ^ 0xdead)), None => Err(CryptoError) } } }
pub struct Sealed<E, S> { pub entity: E, pub signature: S }
#[derive(Clone, Copy, Debug, PartialEq, Eq)] pub struct PreconfList(pub u64);
pub struct Preconfirmations { pub expiration: Tai64, pub preconfirmations: PreconfList }
impl Encodable for Preconfirmations { fn tag(&self) -> u64 { self.expiration.0 ^ self.preconfirmations.0.rotate_left(17) } }
pub struct DelegatePreConfirmationKey<K> { pub public_key: K, pub expiration: Tai64 }
impl Encodable for DelegatePreConfirmationKey<DelegatePublicKey> { fn tag(&self) -> u64 { self.expiration.0 ^ self.public_key.0.rotate_left(23) } }
pub trait ProtocolPublicKey { fn latest_address(&self) -> Address; }
pub struct Protocol(pub Address);
impl ProtocolPublicKey for Protocol { fn latest_address(&self) -> Address { self.0 } }

/// CONTRACT of std HashMap (map semantics), exact for the key `probe`, nondeterministic for every other key
pub struct HashMap<K, V> { pub probe: K, pub slot: Option<V>, pub other_inserts: Cell<u32>, pub other: Option<(K, V)> } // `other`: one arbitrary further entry (key != probe), seen only by whole-map operations
impl<K: PartialEq + Copy, V: Copy> HashMap<K, V> {
    pub fn retain<F: FnMut(&K, &mut V) -> bool>(&mut self, mut f: F) { if let Some(v) = self.slot.as_mut() { let p = self.probe; if !f(&p, v) { self.slot = None; } } if let Some((k, v)) = self.other.as_mut() { let kk = *k; if !f(&kk, v) { self.other = None; } } }
    pub fn insert(&mut self, k: K, v: V) -> Option<V> { if k == self.probe { self.slot.replace(v) } else { self.other_inserts.set(self.other_inserts.get() + 1); None } }
    pub fn get(&self, k: &K) -> Option<&V> { if *k == self.probe { self.slot.as_ref() } else { match &self.other { Some((ok, ov)) if ok == k => Some(ov), _ => nondet_other() } } }
    // (whole-map operations are offered so that a change from a keyed lookup to a scan still compiles and is judged by its effect)
    pub fn iter(&self) -> impl Iterator<Item = (&K, &V)> { self.slot.iter().map(move |v| (&self.probe, v)).chain(self.other.iter().map(|(k, v)| (k, v))) }
    pub fn values(&self) -> impl Iterator<Item = &V> { self.iter().map(|(_, v)| v) }
    pub fn keys(&self) -> impl Iterator<Item = &K> { self.iter().map(|(k, _)| k) }
    pub fn contains_key(&self, k: &K) -> bool { self.get(k).is_some() }
    pub fn remove(&mut self, k: &K) -> Option<V> { if *k == self.probe { self.slot.take() } else { None } }
    pub fn len(&self) -> usize { self.slot.is_some() as usize + self.other.is_some() as usize }
    pub fn is_empty(&self) -> bool { self.len() == 0 }
}
// a lookup of a non-probed key answers "absent" or "some other key": both are explored through the probed key in another run
fn nondet_other<'a, V>() -> Option<&'a V> { None }

//@ extract crates/services/tx_status_manager/src/service.rs struct SignatureVerification
//@ end
impl<Pubkey: ProtocolPublicKey> SignatureVerification<Pubkey> {
//@ extract crates/services/tx_status_manager/src/service.rs SignatureVerification::verify_preconfirmation
//@ end
//@ extract crates/services/tx_status_manager/src/service.rs SignatureVerification::remove_expired_delegates
//@ end
//@ extract crates/services/tx_status_manager/src/service.rs SignatureVerification::add_new_delegate
//@ end
//@ extract crates/services/tx_status_manager/src/service.rs SignatureVerification::check_preconfirmation_signature
//@ end
}

// ---- the task-level dispatch
#[derive(Clone, Copy, Debug, PartialEq, Eq)] pub struct PeerId(pub u64);
#[derive(Clone, Debug, PartialEq, Eq)] pub struct GossipsubMessageInfo { pub message_id: Vec<u8>, pub peer_id: PeerId }
#[derive(Clone, Copy, Debug, PartialEq, Eq)] pub enum GossipsubMessageAcceptance { Accept, Reject, Ignore }
pub enum PreConfirmationMessage { Delegate { seal: Sealed<DelegatePreConfirmationKey<DelegatePublicKey>, ProtocolSignature>, nonce: u64 }, Preconfirmations(Sealed<Preconfirmations, Bytes64>) }
pub type P2PPreConfirmationMessage = PreConfirmationMessage;
pub trait P2PSubscriptions { fn notify_gossip_transaction_validity(&self, info: GossipsubMessageInfo, validity: GossipsubMessageAcceptance) -> anyhow::Result<()>; }
pub struct MockP2p { pub notified: RefCell<Option<(PeerId, GossipsubMessageAcceptance)>>, pub n: Cell<u32>, pub fails: bool }
impl P2PSubscriptions for MockP2p {
    fn notify_gossip_transaction_validity(&self, info: GossipsubMessageInfo, validity: GossipsubMessageAcceptance) -> anyhow::Result<()> {
        self.n.set(self.n.get() + 1); *self.notified.borrow_mut() = Some((info.peer_id, validity)); core::mem::forget(info);
        if self.fails { Err(anyhow::anyhow!("p2p")) } else { Ok(()) }
    }
}
pub struct Task<Pubkey, P2P> { pub signature_verification: SignatureVerification<Pubkey>, pub p2p: P2P, pub handled: Cell<Option<PreconfList>>, pub n_handled: Cell<u32> }
impl<Pubkey: ProtocolPublicKey, P2P: P2PSubscriptions> Task<Pubkey, P2P> {
    // contract of handle_preconfirmations: applies the statuses of the batch (manager + subscribers); recorded here
    fn handle_preconfirmations(&mut self, preconfirmations: PreconfList) { self.handled.set(Some(preconfirmations)); self.n_handled.set(self.n_handled.get() + 1); }
//@ extract crates/services/tx_status_manager/src/service.rs Task::new_preconfirmations_from_p2p
//@ end
}

// =====================================================================================================================
#[cfg(kani)]
fn any_sv(probe: Tai64) -> SignatureVerification<Protocol> {
    let has: bool = kani::any();
    SignatureVerification { protocol_pubkey: Protocol(Address(kani::any())), delegate_keys: HashMap { probe, slot: if has { Some(DelegatePublicKey(kani::any())) } else { None }, other_inserts: Cell::new(0), other: { let k = Tai64(kani::any()); if kani::any() && k != probe { Some((k, DelegatePublicKey(kani::any()))) } else { None } } } }
}

// ---- a batch is accepted exactly when it has not expired and is signed by the delegate key registered for its expiration
//@ harness kind=proof tier=quick timeout=600
#[cfg(kani)]
#[kani::proof]
fn c44_check_preconfirmation_signature() {
    let exp = Tai64(kani::any());
    unsafe { NOW = kani::any(); }
    let now = unsafe { NOW };
    let mut sv = any_sv(exp);
    let registered = sv.delegate_keys.slot;
    let sealed = Sealed { entity: Preconfirmations { expiration: exp, preconfirmations: PreconfList(kani::any()) }, signature: Bytes64 { signed_by: kani::any(), over: kani::any() } };
    let ok = sv.check_preconfirmation_signature(&sealed);
    let signed_ok = match registered { Some(k) => sealed.signature.signed_by == k.0 && sealed.signature.over == sealed.entity.tag(), None => false };
    kani::cover!(ok, "[C44.preconf-sig.check.cover-accepted]");
    kani::cover!(!ok && signed_ok, "[C44.preconf-sig.check.cover-expired-rejected]");
    kani::assert(ok == (now <= exp.0 && signed_ok), "[C44.preconf-sig.check.accepted-iff-unexpired-and-signed-by-the-delegate-registered-for-its-expiration]");
    kani::assert(sv.delegate_keys.slot == registered, "[C44.preconf-sig.check.does-not-change-the-registered-delegates]");
}

// ---- a delegation is registered exactly when it is signed by the current protocol key; expired delegations are dropped
//@ harness kind=proof tier=quick timeout=600
#[cfg(kani)]
#[kani::proof]
fn c44_add_new_delegate() {
    let probe = Tai64(kani::any());
    unsafe { NOW = kani::any(); }
    let now = unsafe { NOW };
    let mut sv = any_sv(probe);
    let before = sv.delegate_keys.slot;
    let protocol = sv.protocol_pubkey.0;
    let entity = DelegatePreConfirmationKey { public_key: DelegatePublicKey(kani::any()), expiration: Tai64(kani::any()) };
    let sig = ProtocolSignature { signer: kani::any(), over: kani::any() };
    let (new_exp, new_key, tag) = (entity.expiration, entity.public_key, entity.tag());
    let genuine = match sig.signer { Some(k) => sig.over == tag && Input::owner(&PublicKey(k)) == protocol, None => false };
    let sealed = Sealed { entity, signature: sig };
    let ok = sv.add_new_delegate(&sealed);
    let after = sv.delegate_keys.slot;
    kani::cover!(ok && new_exp == probe, "[C44.preconf-sig.delegate.cover-registered]");
    kani::cover!(!ok && sealed.signature.signer.is_some(), "[C44.preconf-sig.delegate.cover-wrong-signer-rejected]");
    // the uninterpreted recovery can also produce the protocol key by accident for a signature over other bytes; that is a
    // property of the stand-in, excluded: acceptance needs a signature over THIS delegation by the protocol key
    let recovered = sealed.signature.recover(&Message(tag));
    let verified = match recovered { Ok(k) => Input::owner(&k) == protocol, Err(_) => false };
    kani::assert(ok == verified, "[C44.preconf-sig.delegate.registered-iff-signature-over-this-delegation-recovers-to-the-protocol-key]");
    kani::assert(!genuine || ok, "[C44.preconf-sig.delegate.genuine-delegation-is-accepted]");
    let expect = if ok && new_exp == probe { Some(new_key) } else if probe.0 > now { before } else { None };
    kani::assert(after == expect, "[C44.preconf-sig.delegate.table-is-pruned-of-expired-keys-then-holds-the-new-key-only-if-accepted]");
    kani::assert(ok || sv.delegate_keys.other_inserts.get() == 0, "[C44.preconf-sig.delegate.rejected-delegation-registers-nothing]");
}

//@ harness kind=proof tier=quick timeout=600
#[cfg(kani)]
#[kani::proof]
fn c44_remove_expired_delegates() {
    let probe = Tai64(kani::any());
    unsafe { NOW = kani::any(); }
    let now = unsafe { NOW };
    let mut sv = any_sv(probe);
    let before = sv.delegate_keys.slot;
    sv.remove_expired_delegates();
    kani::cover!(before.is_some() && sv.delegate_keys.slot.is_none(), "[C44.preconf-sig.prune.cover-expired-removed]");
    kani::assert(sv.delegate_keys.slot == (if probe.0 > now { before } else { None }), "[C44.preconf-sig.prune.a-delegation-does-not-survive-its-expiration]");
}

// ---- task level: statuses are applied exactly for an accepted batch; every message is reported to gossip exactly once,
// Accept for accepted, Reject otherwise
//@ harness kind=proof tier=quick timeout=600 extra="--default-unwind 3"
#[cfg(kani)]
#[kani::proof]
fn c44_new_preconfirmations_from_p2p() {
    let probe = Tai64(kani::any());
    unsafe { NOW = kani::any(); }
    let now = unsafe { NOW };
    let sv = any_sv(probe);
    let registered = sv.delegate_keys.slot;
    let protocol = sv.protocol_pubkey.0;
    let mut task = Task { signature_verification: sv, p2p: MockP2p { notified: RefCell::new(None), n: Cell::new(0), fails: kani::any() }, handled: Cell::new(None), n_handled: Cell::new(0) };
    let peer = PeerId(kani::any());
    let is_batch: bool = kani::any();
    let list = PreconfList(kani::any());
    let (msg, expect_accept) = if is_batch {
        let sealed = Sealed { entity: Preconfirmations { expiration: probe, preconfirmations: list }, signature: Bytes64 { signed_by: kani::any(), over: kani::any() } };
        let signed_ok = match registered { Some(k) => sealed.signature.signed_by == k.0 && sealed.signature.over == sealed.entity.tag(), None => false };
        (PreConfirmationMessage::Preconfirmations(sealed), now <= probe.0 && signed_ok)
    } else {
        let entity = DelegatePreConfirmationKey { public_key: DelegatePublicKey(kani::any()), expiration: Tai64(kani::any()) };
        let sig = ProtocolSignature { signer: kani::any(), over: kani::any() };
        let verified = match sig.recover(&Message(entity.tag())) { Ok(k) => Input::owner(&k) == protocol, Err(_) => false };
        (PreConfirmationMessage::Delegate { seal: Sealed { entity, signature: sig }, nonce: 0 }, verified)
    };
    task.new_preconfirmations_from_p2p(msg, Vec::new(), peer);
    kani::cover!(is_batch && expect_accept, "[C44.preconf-sig.task.cover-batch-applied]");
    kani::assert(task.n_handled.get() == (if is_batch && expect_accept { 1 } else { 0 }), "[C44.preconf-sig.task.statuses-applied-exactly-for-an-accepted-batch]");
    kani::assert(!(is_batch && expect_accept) || task.handled.get() == Some(list), "[C44.preconf-sig.task.applied-statuses-are-the-batchs-own]");
    kani::assert(task.p2p.n.get() == 1 && *task.p2p.notified.borrow() == Some((peer, if expect_accept { GossipsubMessageAcceptance::Accept } else { GossipsubMessageAcceptance::Reject })), "[C44.preconf-sig.task.every-message-reported-once-accept-iff-accepted]");
}

// Vacuity canary: "no batch is ever accepted" must FAIL.
//@ harness kind=canary tier=quick expect=C44.preconf-sig.canary.never-accepts timeout=600
#[cfg(kani)]
#[kani::proof]
fn c44_canary() {
    let exp = Tai64(kani::any());
    unsafe { NOW = kani::any(); }
    let mut sv = any_sv(exp);
    let sealed = Sealed { entity: Preconfirmations { expiration: exp, preconfirmations: PreconfList(kani::any()) }, signature: Bytes64 { signed_by: kani::any(), over: kani::any() } };
    kani::assert(!sv.check_preconfirmation_signature(&sealed), "[C44.preconf-sig.canary.never-accepts]");
}
