// Scratch crate generated on every run: the two functions below are pasted from /repo's current working tree.
#![allow(unused)]

//@ extract crates/fuel-core/src/state/rocks_db.rs next_prefix
//@ end

//@ extract crates/fuel-core/src/state/historical_rocksdb.rs height_key
//@ end

#[cfg(kani)]
fn any_vec(max: usize) -> Vec<u8> {
    let len: usize = kani::any();
    kani::assume(len <= max);
    let mut v = Vec::new();
    let mut i = 0;
    while i < max {
        if i < len { v.push(kani::any()); }
        i += 1;
    }
    v
}

// ---- next_prefix: the successor is the least upper bound of the prefix range --------------------------------
// post  None  <=> every byte of the prefix is 0xFF (incl. the empty prefix)
//       Some(n) => for every key k:  k starts with p => k < n          (n is above the whole prefix range)
//                                    p <= k < n      => k starts with p (nothing foreign between p and n)
// bounded: prefix length <= 4, probe key length <= 6; all byte values symbolic.
//@ harness kind=bounded tier=quick bound="prefix <= 4 bytes, probe key <= 6 bytes" timeout=1200 extra="--default-unwind 9"
#[cfg(kani)]
#[kani::proof]
fn c11_next_prefix_is_least_upper_bound() {
    let p = any_vec(4);
    let k = any_vec(6);
    let all_ff = p.iter().all(|b| *b == 0xFF);
    let r = next_prefix(p.clone());
    kani::cover!(p.len() == 3 && p[2] == 0xFF && p[1] != 0xFF, "[C11.rocks-prefix.next_prefix.cover-trailing-ff]");
    kani::assert(r.is_none() == all_ff, "[C11.rocks-prefix.next_prefix.none-iff-all-bytes-ff]");
    if let Some(n) = r {
        let starts = k.starts_with(&p);
        kani::assert(!starts || k < n, "[C11.rocks-prefix.next_prefix.successor-above-every-key-with-the-prefix]");
        kani::assert(!(p <= k && k < n) || starts, "[C11.rocks-prefix.next_prefix.no-foreign-key-between-prefix-and-successor]");
        kani::assert(!n.starts_with(&p), "[C11.rocks-prefix.next_prefix.successor-itself-lacks-the-prefix]");
    }
    // the order fact the lemma uses: a key that starts with p is not below p
    kani::assert(!k.starts_with(&p) || p <= k, "[C11.rocks-prefix.next_prefix.key-with-prefix-is-not-below-prefix]");
}

// ---- height_key: for a fixed key, byte order of height_key equals numeric order of the height -----------------
// (what "nearest modification at or before a height" lookups rely on). Loop-free per byte; key length <= 3.
//@ harness kind=proof tier=quick timeout=1200 extra="--default-unwind 12"
#[cfg(kani)]
#[kani::proof]
fn c11_height_key_order() {
    let key = any_vec(3);
    let h1: u64 = kani::any();
    let h2: u64 = kani::any();
    let a = height_key(&key, &h1);
    let b = height_key(&key, &h2);
    kani::cover!(h1 < h2 && key.len() == 2, "[C11.rocks-prefix.height_key.cover]");
    kani::assert(a.len() == key.len() + 8 && a.starts_with(&key), "[C11.rocks-prefix.height_key.is-key-followed-by-8-bytes]");
    kani::assert((h1 < h2) == (a < b) && (h1 == h2) == (a == b), "[C11.rocks-prefix.height_key.byte-order-equals-height-order]");
}

// Vacuity canary
//@ harness kind=canary tier=quick expect=C11.rocks-prefix.canary.successor-equals-prefix timeout=1200 extra="--default-unwind 9"
#[cfg(kani)]
#[kani::proof]
fn c11_canary() {
    let p = any_vec(3);
    if let Some(n) = next_prefix(p.clone()) {
        kani::assert(n == p, "[C11.rocks-prefix.canary.successor-equals-prefix]");
    }
}
