// Under the assumed RocksDB contract (ASSUMED.md), reverse prefix iteration as coded in RocksDb::reverse_prefix_iter
//   scan stored keys <= n descending, skip a leading key == n, keep keys while they start with p
// yields exactly the stored keys that start with p, PROVIDED n = next_prefix(p) is the least upper bound of the prefix
// range (the three facts proved for the real next_prefix by Kani in lib.kani.rs).
use vstd::prelude::*;
verus! {

pub type Key = Seq<u8>;

pub uninterp spec fn le(a: Key, b: Key) -> bool;          // bytewise order of the column family
pub uninterp spec fn starts(k: Key, p: Key) -> bool;      // k starts with p

pub open spec fn lt(a: Key, b: Key) -> bool { le(a, b) && a != b }

pub open spec fn total_order() -> bool {
    (forall|a: Key| le(a, a))
    && (forall|a: Key, b: Key| le(a, b) && le(b, a) ==> a == b)
    && (forall|a: Key, b: Key, c: Key| le(a, b) && le(b, c) ==> le(a, c))
    && (forall|a: Key, b: Key| le(a, b) || le(b, a))
}

// the contract of next_prefix(p) == Some(n)  ([C11.rocks-prefix.next_prefix.*])
pub open spec fn is_lub(p: Key, n: Key) -> bool {
    (forall|k: Key| starts(k, p) ==> lt(k, n))
    && (forall|k: Key| le(p, k) && lt(k, n) ==> starts(k, p))
    && (forall|k: Key| starts(k, p) ==> le(p, k))
}

// what the coded iteration yields: k is stored, k <= n, k != n (skip_while), and every stored key scanned before k
// (those in [k, n)) passed take_while, i.e. starts with p - including k itself
pub open spec fn yielded(s: Set<Key>, p: Key, n: Key, k: Key) -> bool {
    s.contains(k) && le(k, n) && k != n
    && (forall|j: Key| s.contains(j) && le(k, j) && lt(j, n) ==> starts(j, p))
}

pub proof fn lemma_reverse_prefix_iteration_is_exact(s: Set<Key>, p: Key, n: Key, k: Key)
    requires total_order(), is_lub(p, n),
    ensures yielded(s, p, n, k) <==> (s.contains(k) && starts(k, p)),
{
    if s.contains(k) && starts(k, p) {
        assert(lt(k, n));
        assert(le(p, k));
        assert forall|j: Key| s.contains(j) && le(k, j) && lt(j, n) implies starts(j, p) by {
            assert(le(p, j));
        }
    }
    if yielded(s, p, n, k) {
        assert(le(k, k));
        assert(lt(k, n));
    }
}

} // verus!
fn main() {}
