// Lifting the per-call contracts (proved by Kani on the real methods of sync/src/state.rs) to every
// finite history of observe / commit / failure events. Nothing here mentions the implementation:
// the lemma holds for any implementation that satisfies the contracts.
use vstd::prelude::*;
verus! {

//@ include-pred pred.rs

pub enum Ev { Observe(u32), Commit(u32), Failure }

// one call, as specified by the contracts [C28.sync-state.{observe,commit,failed}.*]
pub open spec fn step_ok(g: G, s: V, e: Ev, g2: G, s2: V) -> bool {
    match e {
        Ev::Observe(h) => g2 == g_observe(g, h) && v_eq(s2, view(g2)),
        Ev::Commit(h) => g2 == g_commit(g, h) && v_eq(s2, view(g2)),
        Ev::Failure => g_failure_ok(g, g2) && v_eq(s2, view(g2)),
    }
}

pub open spec fn step_at(gs: Seq<G>, ss: Seq<V>, es: Seq<Ev>, i: int) -> bool {
    step_ok(gs[i], ss[i], es[i], gs[i + 1], ss[i + 1])
}

pub open spec fn valid_run(gs: Seq<G>, ss: Seq<V>, es: Seq<Ev>) -> bool {
    gs.len() == es.len() + 1 && ss.len() == gs.len() && v_eq(ss[0], view(gs[0]))
        && forall|i: int| 0 <= i < es.len() ==> #[trigger] step_at(gs, ss, es, i)
}

// what the property statement says about a status, for ghost (committed, observed)
pub open spec fn described_by(s: V, g: G) -> bool {
    (s.tag == 0 && !g.c_some && !g.o_some)
    || (s.tag == 0 && !g.c_some && !has_gap(g))
    || (s.tag == 1 && g.c_some && s.a == g.c && !has_gap(g))
    || (s.tag == 2 && g.o_some && s.b == g.o && s.a <= s.b
        && ((g.c_some && g.c < u32::MAX && s.a == g.c + 1) || (!g.c_some && s.a == 0)))
}

pub proof fn lemma_view_matches_statement(g: G)
    ensures described_by(view(g), g),
{
}

pub proof fn lemma_history(gs: Seq<G>, ss: Seq<V>, es: Seq<Ev>, k: int)
    requires valid_run(gs, ss, es), 0 <= k < gs.len(),
    ensures
        v_eq(ss[k], view(gs[k])),
        committed_not_decreased(gs[0], gs[k]),
        forall|j: int| 0 <= j <= k ==> committed_not_decreased(#[trigger] gs[j], gs[k]),
    decreases k,
{
    if k > 0 {
        lemma_history(gs, ss, es, k - 1);
        assert(step_at(gs, ss, es, k - 1));
        assert(committed_not_decreased(gs[k - 1], gs[k]));
        assert forall|j: int| 0 <= j <= k implies committed_not_decreased(#[trigger] gs[j], gs[k]) by {
            if j < k {
                assert(committed_not_decreased(gs[j], gs[k - 1]));
            }
        }
    }
}

// vacuity guard: a run exists (two events from the empty state)
pub proof fn lemma_run_exists()
    ensures exists|gs: Seq<G>, ss: Seq<V>, es: Seq<Ev>| valid_run(gs, ss, es) && es.len() == 1,
{
    let g0 = G { c_some: false, c: 0, o_some: false, o: 0 };
    let g1 = g_observe(g0, 5);
    let gs = seq![g0, g1];
    let ss = seq![view(g0), view(g1)];
    let es = seq![Ev::Observe(5u32)];
    assert(step_at(gs, ss, es, 0));
    assert(valid_run(gs, ss, es));
}

} // verus!
fn main() {}
