// Contract harnesses for crates/services/sync/src/state.rs (spliced into that file as a child
// module, so the private `status` field and `apply_status` are reachable unchanged).
// Every harness is loop-free over full-domain u32 / Option<u32> inputs: a complete proof.
use super::*;
//@ include pred.rs

fn any_g() -> G {
    G { c_some: kani::any(), c: kani::any(), o_some: kani::any(), o: kani::any() }
}

fn to_status(v: V) -> Status {
    match v.tag {
        0 => Status::Uninitialized,
        1 => Status::Committed(v.a),
        _ => Status::Processing(v.a..=v.b),
    }
}

fn of_status(s: &Status) -> V {
    match s {
        Status::Uninitialized => V { tag: 0, a: 0, b: 0 },
        Status::Committed(c) => V { tag: 1, a: *c, b: 0 },
        Status::Processing(r) => V { tag: 2, a: *r.start(), b: *r.end() },
    }
}

fn state_of(g: G) -> State {
    State { status: to_status(view(g)) }
}

fn copy_g(g: &G) -> G {
    G { c_some: g.c_some, c: g.c, o_some: g.o_some, o: g.o }
}

//@ harness kind=proof tier=quick
#[kani::proof]
fn c28_new() {
    let c: Option<u32> = kani::any();
    let o: Option<u32> = kani::any();
    let s = State::new(c, o);
    let g = G { c_some: c.is_some(), c: c.unwrap_or(0), o_some: o.is_some(), o: o.unwrap_or(0) };
    kani::cover!(has_gap(copy_g(&g)), "[C28.sync-state.new.cover-gap]");
    kani::assert(v_eq(of_status(&s.status), view(g)), "[C28.sync-state.new.status-is-view-of-committed-and-observed]");
}

//@ harness kind=proof tier=quick
#[kani::proof]
fn c28_observe() {
    let g = any_g();
    let h: u32 = kani::any();
    let mut s = state_of(copy_g(&g));
    let before = of_status(&s.status);
    let changed = s.observe(h);
    let g2 = g_observe(copy_g(&g), h);
    let after = of_status(&s.status);
    kani::cover!(changed && after.tag == 2, "[C28.sync-state.observe.cover-extends]");
    kani::assert(v_eq(of_status(&s.status), view(copy_g(&g2))), "[C28.sync-state.observe.status-is-view-with-max-observed]");
    kani::assert(changed == !v_eq(before, of_status(&s.status)), "[C28.sync-state.observe.returns-whether-status-changed]");
    kani::assert(committed_not_decreased(g, g2), "[C28.sync-state.observe.committed-not-decreased]");
}

//@ harness kind=proof tier=quick
#[kani::proof]
fn c28_commit() {
    let g = any_g();
    let h: u32 = kani::any();
    let mut s = state_of(copy_g(&g));
    s.commit(h);
    let g2 = g_commit(copy_g(&g), h);
    kani::cover!(of_status(&s.status).tag == 2, "[C28.sync-state.commit.cover-still-processing]");
    kani::assert(v_eq(of_status(&s.status), view(copy_g(&g2))), "[C28.sync-state.commit.status-is-view-with-max-committed]");
    kani::assert(committed_not_decreased(g, g2), "[C28.sync-state.commit.committed-not-decreased]");
}

/// The committed height that a status exposes (None while uninitialized or processing from zero).
fn committed_of(v: &V) -> Option<u32> {
    match v.tag {
        1 => Some(v.a),
        2 if v.a > 0 => Some(v.a - 1),
        _ => None,
    }
}

//@ harness kind=proof tier=quick
#[kani::proof]
fn c28_failed_to_process() {
    let g = any_g();
    let lo: u32 = kani::any();
    let hi: u32 = kani::any();
    let mut s = state_of(copy_g(&g));
    let before = of_status(&s.status);
    s.failed_to_process(lo..=hi);
    let after = of_status(&s.status);
    // the ghost state after the failure: committed height untouched; observed = the new range end if
    // still processing, otherwise forgotten
    let g2 = G { c_some: g.c_some, c: g.c, o_some: after.tag == 2, o: after.b };
    kani::cover!(after.tag == 2 && after.b < before.b, "[C28.sync-state.failed.cover-shortened]");
    kani::cover!(before.tag == 2 && after.tag != 2, "[C28.sync-state.failed.cover-reverted]");
    kani::assert(g_failure_ok(copy_g(&g), copy_g(&g2)), "[C28.sync-state.failed.committed-kept-observed-not-grown]");
    kani::assert(v_eq(copy_v(&after), view(copy_g(&g2))), "[C28.sync-state.failed.status-is-view]");
    // an empty failed range, or one that does not touch the range being processed, changes nothing
    let touches = before.tag == 2 && lo <= hi && lo <= before.b && hi >= before.a;
    kani::assert(touches || v_eq(copy_v(&before), copy_v(&after)), "[C28.sync-state.failed.unrelated-failure-changes-nothing]");
    // a failure that does touch it removes the failed heights from what is being processed
    kani::assert(!touches || after.tag != 2 || after.b < lo, "[C28.sync-state.failed.failed-heights-left-out]");
}

fn copy_v(v: &V) -> V { V { tag: v.tag, a: v.a, b: v.b } }

//@ harness kind=proof tier=quick
#[kani::proof]
fn c28_process_range() {
    let g = any_g();
    let s = state_of(copy_g(&g));
    let r = s.process_range();
    let v = view(g);
    kani::cover!(r.is_some(), "[C28.sync-state.process_range.cover-some]");
    kani::assert(match r {
        None => v.tag != 2,
        Some(r) => v.tag == 2 && *r.start() == v.a && *r.end() == v.b && v.a <= v.b,
    }, "[C28.sync-state.process_range.is-the-processing-range]");
}

// Vacuity canary: a deliberately false variant of the commit contract must FAIL.
//@ harness kind=canary tier=quick expect=C28.sync-state.canary.commit-never-changes-status
#[kani::proof]
fn c28_canary() {
    let g = any_g();
    let h: u32 = kani::any();
    let mut s = state_of(copy_g(&g));
    let before = of_status(&s.status);
    s.commit(h);
    kani::assert(v_eq(before, of_status(&s.status)), "[C28.sync-state.canary.commit-never-changes-status]");
}
