// Shared predicate text: plain Rust (included by the Kani harness module) and, with `fn` rewritten
// to `pub open spec fn`, Verus spec (included by lemma.verus.rs). Only comparisons, boolean
// connectives and +1/-1 under a guard that excludes overflow are used, so the machine-integer
// meaning (Kani) and the mathematical meaning (Verus) coincide.
//
// Ghost state G: the highest committed height and the best observed height still to be trusted.
// View V: the status the property statement prescribes for a ghost state:
//   tag 0 = uninitialized, 1 = committed at `a`, 2 = processing `a..=b`.

#[derive(Clone, Copy)]
pub struct G { pub c_some: bool, pub c: u32, pub o_some: bool, pub o: u32 }
#[derive(Clone, Copy)]
pub struct V { pub tag: u8, pub a: u32, pub b: u32 }

// "there is a gap to the best known height"
pub fn has_gap(g: G) -> bool {
    g.o_some && (!g.c_some || g.o > g.c)
}

// the status the statement prescribes: uninitialized / committed at the highest committed height
// with nothing left to do / processing from right after the committed height (or zero) up to the
// highest observed height
pub fn view(g: G) -> V {
    if has_gap(g) {
        if g.c_some { V { tag: 2, a: (g.c + 1) as u32, b: g.o } } else { V { tag: 2, a: 0, b: g.o } }
    } else if g.c_some {
        V { tag: 1, a: g.c, b: 0 }
    } else {
        V { tag: 0, a: 0, b: 0 }
    }
}

pub fn v_eq(x: V, y: V) -> bool {
    x.tag == y.tag && (x.tag == 0 || (x.a == y.a && (x.tag == 1 || x.b == y.b)))
}

// ghost update for observe(h): best observed height becomes max(o, h)
pub fn g_observe(g: G, h: u32) -> G {
    if g.o_some && g.o >= h { g } else { G { c_some: g.c_some, c: g.c, o_some: true, o: h } }
}

// ghost update for commit(h): committed height becomes max(c, h) - it never decreases
pub fn g_commit(g: G, h: u32) -> G {
    if g.c_some && g.c >= h { g } else { G { c_some: true, c: h, o_some: g.o_some, o: g.o } }
}

// what a failure may do to the ghost state: the committed height is untouched and the trusted
// observed height does not grow (it is kept, lowered, or forgotten)
pub fn g_failure_ok(g: G, g2: G) -> bool {
    g2.c_some == g.c_some && (!g.c_some || g2.c == g.c)
        && (!g2.o_some || (g.o_some && g2.o <= g.o))
}

pub fn committed_not_decreased(g: G, g2: G) -> bool {
    !g.c_some || (g2.c_some && g2.c >= g.c)
}
