// Contract harnesses for crates/services/sync/src/import/cache.rs (child module: private fns reachable).
use super::*;


fn range_of(c: &CachedDataBatch) -> Range<u32> {
    match c {
        CachedDataBatch::None(r) => r.clone(),
        CachedDataBatch::Headers(b) => b.range.clone(),
        CachedDataBatch::Blocks(b) => b.range.clone(),
    }
}

// ---- push_missing_chunks: gap [from, to) ---------------------------------------------------------
// pre  from <= to
// post exactly the chunks None(r_0..r_k) are appended, r_0.start == from, r_i.end == r_{i+1}.start,
//      r_k.end == to, 0 < |r_i| <= size; nothing appended when from == to; earlier chunks untouched.
// bounded: to - from <= 6 (the step_by iterator is unrolled); from, size, end full-domain.
//@ harness kind=bounded tier=quick bound="gap length <= 6" extra="--default-unwind 10"
#[kani::proof]
fn c27_push_missing_chunks() {
    let from: u32 = kani::any();
    let len: u32 = kani::any();
    kani::assume(len <= 6 && from <= u32::MAX - len);
    let to = from + len;
    let size: u32 = kani::any();
    kani::assume(size >= 1);
    let mut chunks: Vec<CachedDataBatch> = Vec::new();
    chunks.push(CachedDataBatch::None(7..9));
    Cache::push_missing_chunks(&mut chunks, from, to, NonZeroU32::new(size).unwrap());
    kani::cover!(chunks.len() == 4, "[C27.sync-cache.push_missing.cover-three-chunks-gap-before-cached]");
    kani::assert(range_of(&chunks[0]) == (7..9), "[C27.sync-cache.push_missing.frame-earlier-chunks-untouched]");
    let mut cur = from;
    let mut ok_kind = true;
    let mut ok_chain = true;
    let mut ok_size = true;
    let mut i = 1;
    while i < chunks.len() {
        match &chunks[i] {
            CachedDataBatch::None(r) => {
                ok_chain &= r.start == cur;
                ok_size &= r.end > r.start && r.end - r.start <= size;
                cur = r.end;
            }
            _ => ok_kind = false,
        }
        i += 1;
    }
    kani::assert(ok_kind, "[C27.sync-cache.push_missing.only-none-chunks]");
    kani::assert(ok_chain, "[C27.sync-cache.push_missing.chunks-consecutive-from-gap-start]");
    kani::assert(ok_size, "[C27.sync-cache.push_missing.chunks-nonempty-and-within-batch-size]");
    kani::assert(cur == to, "[C27.sync-cache.push_missing.chunks-end-exactly-at-gap-end]");
    kani::assert(len != 0 || chunks.len() == 1, "[C27.sync-cache.push_missing.empty-gap-appends-nothing]");
    // no drop glue for the (large) batch enum: it is irrelevant to the contract and explodes unwinding
    core::mem::forget(chunks);
}
