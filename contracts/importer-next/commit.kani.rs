// Scratch crate generated on every run. Pasted from /repo's current working tree (header and body byte for byte):
//   importer/src/importer.rs : ImporterInner::_commit_result
// Everything it calls is a recording stand-in (listed in unit.toml): the database port (latest_block_root before and after
// applying the execution changes, commit_changes), the reconciliation write port, the broadcast channel, metrics.
#![allow(unused)]
use core::cell::{Cell, RefCell};
use std::sync::Arc;

#[macro_export] macro_rules! __noop { ($($t:tt)*) => {{}} }
pub mod tracing { pub use crate::__noop as error; pub use crate::__noop as info; pub use crate::__noop as warn; pub use crate::__noop as debug; pub use crate::__noop as trace; }

#[derive(Clone, Copy, Debug, PartialEq, Eq)] pub struct BlockHeight(pub u32);
#[derive(Clone, Copy, Debug, PartialEq, Eq)] pub struct MerkleRoot(pub u64);
#[derive(Clone, Copy, Debug, PartialEq, Eq)] pub struct BlockId(pub u64);
impl core::fmt::LowerHex for BlockId { fn fmt(&self, f: &mut core::fmt::Formatter<'_>) -> core::fmt::Result { Ok(()) } }
#[derive(Clone, Copy, Debug, PartialEq, Eq)] pub enum Source { Local, Network }
#[derive(Clone, Copy, Debug, PartialEq, Eq)] pub struct Header { pub height: BlockHeight }
impl Header { pub fn height(&self) -> &BlockHeight { &self.height } }
#[derive(Clone, Copy, Debug, PartialEq, Eq)] pub struct Block { pub header: Header, pub id: BlockId }
impl Block { pub fn header(&self) -> &Header { &self.header } pub fn id(&self) -> BlockId { self.id } }
#[derive(Clone, Copy, Debug, PartialEq, Eq)] pub struct SealedBlock { pub entity: Block }
#[derive(Clone, Copy, Debug, PartialEq, Eq)] pub struct ImportResult { pub sealed_block: SealedBlock, pub tx_status: u8, pub source: Source }
/// a change set, identified by a tag
#[derive(Clone, Copy, Debug, PartialEq, Eq)] pub struct Changes(pub u64);
pub struct Uncommitted(pub ImportResult, pub Changes);
impl From<Uncommitted> for (ImportResult, Changes) { fn from(u: Uncommitted) -> Self { (u.0, u.1) } }
pub struct PrepareImportResult { pub result: Uncommitted, pub block_changes: Changes }
pub enum StorageChanges { Changes(Changes), ChangesList(Vec<Changes>) }
#[derive(Debug, PartialEq, Eq)]
pub enum Error { InvalidDatabaseStateAfterExecution(Option<MerkleRoot>, Option<MerkleRoot>), FailedBlockReconciliationWrite(()), Storage }
#[derive(Debug)] pub struct StorageError;
impl From<StorageError> for Error { fn from(_: StorageError) -> Self { Error::Storage } }
pub struct OwnedSemaphorePermit(pub u8);
pub struct Awaiter { pub result: ImportResult, pub permit: OwnedSemaphorePermit }
impl Awaiter { pub fn new(result: ImportResult, permit: OwnedSemaphorePermit) -> Self { Awaiter { result, permit } } }
pub struct ImporterResult { pub shared_result: Arc<Awaiter> }

/// order of effects: 1 = publish to reconciliation, 2 = commit, 3 = broadcast
pub struct Log { pub events: RefCell<[u8; 4]>, pub n: Cell<usize> }
impl Log { pub fn push(&self, e: u8) { let k = self.n.get(); if k < 4 { self.events.borrow_mut()[k] = e; } self.n.set(k + 1); } }
pub struct Database { pub root_before: Result<Option<MerkleRoot>, ()>, pub root_after: Result<Option<MerkleRoot>, ()>, pub commit_fails: bool, pub committed: RefCell<Option<[Changes; 2]>>, pub commit_len: Cell<usize>, pub log: Arc<Log> }
pub struct Tx<'a> { db: &'a Database, changes: Changes }
impl Database {
    pub fn latest_block_root(&self) -> Result<Option<MerkleRoot>, StorageError> { self.root_before.map_err(|_| StorageError) }
    pub fn storage_transaction(&self, changes: Changes) -> Tx<'_> { Tx { db: self, changes } }
    pub fn commit_changes(&mut self, c: StorageChanges) -> Result<(), StorageError> {
        self.log.push(2);
        match c { StorageChanges::ChangesList(l) => { self.commit_len.set(l.len()); if l.len() == 2 { *self.committed.borrow_mut() = Some([l[0], l[1]]); } } StorageChanges::Changes(x) => { self.commit_len.set(1); } }
        if self.commit_fails { Err(StorageError) } else { Ok(()) }
    }
}
impl<'a> Tx<'a> {
    pub fn latest_block_root(&self) -> Result<Option<MerkleRoot>, StorageError> { self.db.root_after.map_err(|_| StorageError) }
    pub fn into_changes(self) -> Changes { self.changes }
}
pub struct ReconciliationPort { pub fails: bool, pub published: Cell<Option<SealedBlock>>, pub log: Arc<Log> }
impl ReconciliationPort { pub fn publish_produced_block(&self, b: &SealedBlock) -> Result<(), ()> { self.log.push(1); self.published.set(Some(*b)); if self.fails { Err(()) } else { Ok(()) } } }
pub struct Broadcast { pub sent: RefCell<Option<(ImportResult, u8)>>, pub no_receivers: bool, pub log: Arc<Log> }
impl Broadcast { pub fn send(&self, r: ImporterResult) -> Result<usize, ()> { self.log.push(3); *self.sent.borrow_mut() = Some((r.shared_result.result, r.shared_result.permit.0)); if self.no_receivers { Err(()) } else { Ok(1) } } }
pub struct ImporterInner { pub database: Database, pub block_reconciliation_write_port: ReconciliationPort, pub broadcast: Broadcast, pub metrics: bool, pub metric_updates: Cell<u32> }
impl ImporterInner {
//@ extract crates/services/importer/src/importer.rs ImporterInner::_commit_result
//@ end
    fn update_metrics(_r: &ImportResult, _h: &BlockHeight) {}
}

// =====================================================================================================================
// The commit step: execution must not have touched the block Merkle accumulator; the block's changes and the execution's
// changes are committed together, once; the import is announced exactly once, only after the commit succeeded; any failure
// (root mismatch, database error, reconciliation write, commit) announces nothing and - before the commit - commits nothing.
//@ harness kind=proof tier=quick timeout=600 extra="--default-unwind 4"
#[cfg(kani)]
#[kani::proof]
fn c08_commit_result() {
    let log = Arc::new(Log { events: RefCell::new([0; 4]), n: Cell::new(0) });
    let any_root = || -> Result<Option<MerkleRoot>, ()> { let k: u8 = kani::any(); kani::assume(k <= 2); match k { 0 => Err(()), 1 => Ok(None), _ => Ok(Some(MerkleRoot(kani::any()))) } };
    let (rb, ra) = (any_root(), any_root());
    let db = Database { root_before: rb, root_after: ra, commit_fails: kani::any(), committed: RefCell::new(None), commit_len: Cell::new(0), log: log.clone() };
    let commit_fails = db.commit_fails;
    let port = ReconciliationPort { fails: kani::any(), published: Cell::new(None), log: log.clone() };
    let port_fails = port.fails;
    let bc = Broadcast { sent: RefCell::new(None), no_receivers: kani::any(), log: log.clone() };
    let mut imp = ImporterInner { database: db, block_reconciliation_write_port: port, broadcast: bc, metrics: kani::any(), metric_updates: Cell::new(0) };
    let local: bool = kani::any();
    let block = SealedBlock { entity: Block { header: Header { height: BlockHeight(kani::any()) }, id: BlockId(kani::any()) } };
    let result = ImportResult { sealed_block: block, tx_status: kani::any(), source: if local { Source::Local } else { Source::Network } };
    let (bchg, xchg) = (Changes(kani::any()), Changes(kani::any()));
    let permit: u8 = kani::any();
    let r = imp._commit_result(PrepareImportResult { result: Uncommitted(result, xchg), block_changes: bchg }, OwnedSemaphorePermit(permit));
    let roots_ok = rb.is_ok() && ra.is_ok() && rb == ra;
    let n = log.n.get(); let ev = *log.events.borrow();
    kani::cover!(r.is_ok() && local, "[C08.importer-next.commit.cover-local-block-committed]");
    kani::cover!(matches!(r, Err(Error::InvalidDatabaseStateAfterExecution(_, _))), "[C08.importer-next.commit.cover-accumulator-touched-rejected]");
    kani::assert(r.is_ok() == (roots_ok && !(local && port_fails) && !commit_fails), "[C08.importer-next.commit.succeeds-iff-roots-equal-and-every-port-succeeds]");
    // execution that changed the latest block root (or an unreadable root) commits and announces nothing
    kani::assert(roots_ok || n == 0, "[C08.importer-next.commit.execution-that-touched-the-block-merkle-accumulator-commits-nothing]");
    // order: (publish for locally produced blocks,) commit, broadcast - each at most once, broadcast only after a successful commit
    let expect: [u8; 3] = if !roots_ok { [0, 0, 0] } else if local { if port_fails { [1, 0, 0] } else if commit_fails { [1, 2, 0] } else { [1, 2, 3] } } else if commit_fails { [2, 0, 0] } else { [2, 3, 0] };
    let en = (expect[0] != 0) as usize + (expect[1] != 0) as usize + (expect[2] != 0) as usize;
    kani::assert(n == en && ev[0] == expect[0] && ev[1] == expect[1] && ev[2] == expect[2], "[C08.importer-next.commit.published-then-committed-then-announced-each-once-and-announced-only-after-commit]");
    if imp.database.commit_len.get() > 0 {
        kani::assert(imp.database.commit_len.get() == 2 && *imp.database.committed.borrow() == Some([bchg, xchg]), "[C08.importer-next.commit.block-changes-and-execution-changes-committed-together-in-one-batch]");
    }
    if r.is_ok() {
        kani::assert(*imp.broadcast.sent.borrow() == Some((result, permit)), "[C08.importer-next.commit.announcement-carries-this-import-result-and-its-permit]");
        if local { kani::assert(imp.block_reconciliation_write_port.published.get() == Some(block), "[C08.importer-next.commit.locally-produced-block-is-published-for-reconciliation]"); }
    }
}

// Vacuity canary
//@ harness kind=canary tier=quick expect=C08.importer-next.canary.commit-never-announces timeout=600 extra="--default-unwind 4"
#[cfg(kani)]
#[kani::proof]
fn c08_commit_canary() {
    let log = Arc::new(Log { events: RefCell::new([0; 4]), n: Cell::new(0) });
    let db = Database { root_before: Ok(None), root_after: Ok(None), commit_fails: false, committed: RefCell::new(None), commit_len: Cell::new(0), log: log.clone() };
    let mut imp = ImporterInner { database: db, block_reconciliation_write_port: ReconciliationPort { fails: false, published: Cell::new(None), log: log.clone() }, broadcast: Broadcast { sent: RefCell::new(None), no_receivers: false, log: log.clone() }, metrics: false, metric_updates: Cell::new(0) };
    let block = SealedBlock { entity: Block { header: Header { height: BlockHeight(1) }, id: BlockId(1) } };
    let _ = imp._commit_result(PrepareImportResult { result: Uncommitted(ImportResult { sealed_block: block, tx_status: 0, source: Source::Network }, Changes(1)), block_changes: Changes(2) }, OwnedSemaphorePermit(0));
    kani::assert(imp.broadcast.sent.borrow().is_none(), "[C08.importer-next.canary.commit-never-announces]");
}
