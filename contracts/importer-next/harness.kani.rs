// Contract harness for create_block_changes (crates/services/importer/src/importer.rs).
use super::*;
use fuel_core_types::blockchain::{block::Block, consensus::{Genesis, poa::PoAConsensus}};
use fuel_core_storage::{MerkleRoot, Result as StorageResult};
//@ include pred.rs

static mut STORE_CALLS: u32 = 0;
static mut STORE_CALLED_FOR: u32 = 0;

struct MockDb { latest: u8, h: u32, store: u8 }
struct MockTx<'a> { db: &'a MockDb, changes: Changes }

fn storage_err() -> fuel_core_storage::Error { fuel_core_storage::Error::NotFound("mock", "mock") }

impl ImporterDatabase for MockDb {
    fn latest_block_height(&self) -> StorageResult<Option<BlockHeight>> {
        match self.latest { 0 => Err(storage_err()), 1 => Ok(None), _ => Ok(Some(self.h.into())) }
    }
    fn latest_block_root(&self) -> StorageResult<Option<MerkleRoot>> { Ok(None) }
    fn commit_changes(&mut self, _c: StorageChanges) -> StorageResult<()> { Ok(()) }
}
impl<'a> DatabaseTransaction for MockTx<'a> {
    fn latest_block_root(&self) -> StorageResult<Option<MerkleRoot>> { Ok(None) }
    fn store_new_block(&mut self, _chain_id: &ChainId, block: &SealedBlock) -> StorageResult<bool> {
        unsafe { STORE_CALLS += 1; STORE_CALLED_FOR = **block.entity.header().height(); }
        match self.db.store { 0 => Err(storage_err()), 1 => Ok(false), _ => Ok(true) }
    }
    fn into_changes(self) -> Changes { self.changes }
}
impl Transactional for MockDb {
    type Transaction<'a> = MockTx<'a>;
    fn storage_transaction(&self, changes: Changes) -> Self::Transaction<'_> { MockTx { db: self, changes } }
}

fn no_recalc_stub(_h: &mut fuel_core_types::blockchain::header::BlockHeaderV1) {}
// HashMap::new() seeds its hasher from the OS (getrandom syscall): fixed keys instead
fn fixed_random_state() -> std::hash::RandomState { unsafe { core::mem::zeroed() } }

fn run(kind: u8, h: u32, db: &MockDb) -> bool {
    let mut block = Block::default();
    block.header_mut().set_block_height(h.into());
    let consensus = if kind == 0 { Consensus::Genesis(Genesis::default()) } else { Consensus::PoA(PoAConsensus::default()) };
    let sealed = SealedBlock { entity: block, consensus };
    let r = create_block_changes(&ChainId::default(), &sealed, db);
    let ok = r.is_ok();
    core::mem::forget(r);
    core::mem::forget(sealed);
    ok
}

//@ harness kind=proof tier=thorough timeout=2400
#[kani::proof]
#[kani::stub(fuel_core_types::blockchain::header::BlockHeaderV1::recalculate_metadata, no_recalc_stub)]
#[kani::stub(std::hash::RandomState::new, fixed_random_state)]
fn c08_create_block_changes() {
    let kind: u8 = kani::any();
    kani::assume(kind <= 1);
    let h: u32 = kani::any();
    let db = MockDb { latest: kani::any(), h: kani::any(), store: kani::any() };
    kani::assume(db.latest <= 2 && db.store <= 2);
    let ok = run(kind, h, &db);
    let (calls, called_for) = unsafe { (STORE_CALLS, STORE_CALLED_FOR) };
    let next = is_next_block(kind, h, db.latest == 2, db.h);
    kani::cover!(ok && kind == 0, "[C08.importer-next.create.cover-genesis-accepted]");
    kani::cover!(ok && kind == 1 && h > 1, "[C08.importer-next.create.cover-poa-accepted]");
    kani::cover!(!ok && db.latest == 2 && kind == 1 && h > db.h, "[C08.importer-next.create.cover-gap-rejected]");
    // accepted only if it is the next block for the database (genesis into empty db; PoA at latest+1, never 0)
    kani::assert(!ok || next, "[C08.importer-next.create.accepted-only-at-next-height]");
    // accepted only if the storage reported the block as new (unique)
    kani::assert(!ok || (calls == 1 && db.store == 2), "[C08.importer-next.create.accepted-only-if-block-is-new]");
    // the block is never handed to storage unless the height check passed, and it is that block
    kani::assert(calls == 0 || (calls == 1 && next && called_for == h), "[C08.importer-next.create.stores-only-the-next-block-once]");
    // a database read error is never turned into an acceptance
    kani::assert(db.latest != 0 || !ok, "[C08.importer-next.create.db-error-rejects]");
}

// Vacuity canary: "nothing is ever accepted" must FAIL.
//@ harness kind=canary tier=thorough expect=C08.importer-next.canary.never-accepts timeout=2400
#[kani::proof]
#[kani::stub(fuel_core_types::blockchain::header::BlockHeaderV1::recalculate_metadata, no_recalc_stub)]
#[kani::stub(std::hash::RandomState::new, fixed_random_state)]
fn c08_canary() {
    let h: u32 = kani::any();
    let db = MockDb { latest: 2, h: kani::any(), store: 2 };
    let ok = run(1, h, &db);
    kani::assert(!ok, "[C08.importer-next.canary.never-accepts]");
}
