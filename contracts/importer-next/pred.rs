// Shared predicate text (Rust for Kani, spec for Verus).
// The decision of the importer for one block, as the property states it:
//   kind: 0 = genesis consensus, 1 = PoA consensus
//   latest_some/latest: the database's latest committed height
// "the next unique block": genesis only into an empty database; a PoA block only at latest + 1 (never 0).

pub fn is_next_block(kind: u8, h: u32, latest_some: bool, latest: u32) -> bool {
    (kind == 0 && !latest_some)
        || (kind == 1 && h != 0 && latest_some && latest < u32::MAX && h == (latest + 1) as u32)
}
