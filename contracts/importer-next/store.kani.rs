// Scratch crate generated on every run. Pasted from /repo's current working tree (header and body byte for byte):
//   importer/src/ports.rs : <StorageTransaction<S> as DatabaseTransaction>::store_new_block
// Everything it calls is replaced by a recording contract (listed in unit.toml): the write transaction over the three
// tables answers each `replace` with "an entry existed" / "no entry" / an error as the harness chose and records the key.
#![allow(unused)]
use core::cell::{Cell, RefCell};
use core::marker::PhantomData;

pub type StorageResult<T> = Result<T, StorageError>;
#[derive(Debug)] pub struct StorageError;
#[derive(Clone, Copy, Debug, PartialEq, Eq)] pub struct ChainId(pub u64);
#[derive(Clone, Copy, Debug, PartialEq, Eq)] pub struct BlockHeight(pub u32);
#[derive(Clone, Copy, Debug, PartialEq, Eq)] pub struct TxId(pub u64);
#[derive(Clone, Copy, Debug)] pub struct Transaction { pub raw: u64 }
impl Transaction { pub fn id(&self, chain_id: &ChainId) -> TxId { TxId(self.raw ^ chain_id.0) } }
pub struct CompressedBlock(pub u32);
pub struct Header { pub height: BlockHeight }
impl Header { pub fn height(&self) -> &BlockHeight { &self.height } }
pub struct Block { pub header: Header, pub txs: [Transaction; 3], pub n: usize }
impl Block {
    pub fn header(&self) -> &Header { &self.header }
    pub fn compress(&self, _chain_id: &ChainId) -> CompressedBlock { CompressedBlock(self.header.height.0) }
    pub fn transactions(&self) -> &[Transaction] { &self.txs[..self.n] }
}
pub struct Consensus(pub u8);
pub struct SealedBlock { pub entity: Block, pub consensus: Consensus }

pub struct FuelBlocks; pub struct SealedBlockConsensus; pub struct Transactions;
pub trait Table { const ID: u8; type Key: Into<u64> + Copy; type Value; }
impl From<BlockHeight> for u64 { fn from(h: BlockHeight) -> u64 { h.0 as u64 } }
impl From<TxId> for u64 { fn from(h: TxId) -> u64 { h.0 } }
impl Table for FuelBlocks { const ID: u8 = 1; type Key = BlockHeight; type Value = CompressedBlock; }
impl Table for SealedBlockConsensus { const ID: u8 = 2; type Key = BlockHeight; type Value = Consensus; }
impl Table for Transactions { const ID: u8 = 3; type Key = TxId; type Value = Transaction; }

/// what the storage answers to the k-th `replace` (0 = no entry existed, 1 = an entry existed, 2 = error), and a log
pub struct Script { pub answers: [u8; 5], pub log: RefCell<[(u8, u64); 5]>, pub calls: Cell<usize>, pub commits: Cell<u32>, pub commit_fails: bool, pub replaces_at_commit: Cell<usize> }
pub struct StorageTransaction<S> { pub inner: S }
pub struct WriteTx<'a> { s: &'a Script }
pub struct TableMut<'a, 'b, T> { tx: &'b mut WriteTx<'a>, _t: PhantomData<T> }
impl<'s> StorageTransaction<&'s Script> {
    pub fn write_transaction(&mut self) -> WriteTx<'s> { WriteTx { s: self.inner } }
}
impl<'a> WriteTx<'a> {
    pub fn storage_as_mut<'b, T>(&'b mut self) -> TableMut<'a, 'b, T> { TableMut { tx: self, _t: PhantomData } }
    pub fn commit(self) -> StorageResult<()> {
        self.s.commits.set(self.s.commits.get() + 1);
        self.s.replaces_at_commit.set(self.s.calls.get());
        if self.s.commit_fails { Err(StorageError) } else { Ok(()) }
    }
}
impl<'a, 'b, T: Table> TableMut<'a, 'b, T> {
    pub fn replace(self, key: &T::Key, _value: &T::Value) -> StorageResult<Option<()>> {
        let s = self.tx.s;
        let k = s.calls.get();
        s.calls.set(k + 1);
        if k >= 5 { return Err(StorageError) }
        s.log.borrow_mut()[k] = (T::ID, (*key).into());
        match s.answers[k] { 0 => Ok(None), 1 => Ok(Some(())), _ => Err(StorageError) }
    }
}

pub trait DatabaseTransaction { fn store_new_block(&mut self, chain_id: &ChainId, block: &SealedBlock) -> StorageResult<bool>; }
impl<'s> DatabaseTransaction for StorageTransaction<&'s Script> {
//@ extract crates/services/importer/src/ports.rs <StorageTransaction as DatabaseTransaction>::store_new_block
//@ end
}

// =====================================================================================================================
// "no block, consensus record or transaction for it exists yet": the block is reported new exactly when none of the
// entries it writes existed; every entry is written under its own key; the writes are committed once, after all of them.
//@ harness kind=bounded tier=quick bound="block with at most 3 transactions" timeout=600 extra="--default-unwind 7"
#[cfg(kani)]
#[kani::proof]
fn c08_store_new_block() {
    let chain = ChainId(kani::any());
    let h: u32 = kani::any();
    let n: usize = kani::any();
    kani::assume(n <= 3);
    let txs = [Transaction { raw: kani::any() }, Transaction { raw: kani::any() }, Transaction { raw: kani::any() }];
    let answers: [u8; 5] = kani::any();
    kani::assume(answers[0] <= 2 && answers[1] <= 2 && answers[2] <= 2 && answers[3] <= 2 && answers[4] <= 2);
    let script = Script { answers, log: RefCell::new([(0, 0); 5]), calls: Cell::new(0), commits: Cell::new(0), commit_fails: kani::any(), replaces_at_commit: Cell::new(0) };
    let block = SealedBlock { entity: Block { header: Header { height: BlockHeight(h) }, txs, n }, consensus: Consensus(0) };
    let mut st = StorageTransaction { inner: &script };
    let r = st.store_new_block(&chain, &block);
    let total = 2 + n;
    let mut any_err = false;
    let mut any_found = false;
    let mut k = 0;
    while k < 5 { if k < total { if answers[k] == 2 { any_err = true; } if answers[k] == 1 { any_found = true; } } k += 1; }
    kani::cover!(matches!(r, Ok(false)) && n == 3 && answers[3] == 1 && answers[4] == 0, "[C08.importer-next.store.cover-duplicate-transaction-in-the-middle]");
    kani::cover!(matches!(r, Ok(true)) && n == 3, "[C08.importer-next.store.cover-new-block-with-three-transactions]");
    match r {
        Ok(new) => {
            kani::assert(!any_err && !script.commit_fails, "[C08.importer-next.store.storage-error-is-never-swallowed]");
            kani::assert(new == !any_found, "[C08.importer-next.store.new-iff-no-block-consensus-or-transaction-existed]");
            let log = script.log.borrow();
            kani::assert(script.calls.get() == total, "[C08.importer-next.store.writes-block-consensus-and-every-transaction]");
            kani::assert(log[0] == (1, h as u64) && log[1] == (2, h as u64), "[C08.importer-next.store.block-and-consensus-stored-under-the-block-height]");
            let mut i = 0;
            let mut keys_ok = true;
            while i < 3 { if i < n && log[2 + i] != (3, txs[i].raw ^ chain.0) { keys_ok = false; } i += 1; }
            kani::assert(keys_ok, "[C08.importer-next.store.every-transaction-stored-under-its-id-in-order]");
            kani::assert(script.commits.get() == 1 && script.replaces_at_commit.get() == total, "[C08.importer-next.store.committed-once-after-all-writes]");
        }
        Err(_) => {
            kani::assert(any_err || script.commit_fails, "[C08.importer-next.store.fails-only-on-storage-error]");
        }
    }
}
