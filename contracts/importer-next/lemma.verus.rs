// From the contract of create_block_changes (Kani, real code) + "a successful commit makes the block's height the
// latest height" (the database port contract, C09) to: over ANY history of import requests the committed heights are
// g, g+1, g+2, ... - consecutive, no repeats, genesis at most once and only first; failed requests change nothing.
use vstd::prelude::*;
verus! {

//@ include-pred pred.rs

pub struct Req { pub kind: u8, pub h: u32, pub accepted: bool }
pub struct Db { pub latest_some: bool, pub latest: u32 }

pub open spec fn step_ok(d: Db, r: Req, d2: Db) -> bool {
    // contract: accepted ==> is_next_block;  commit sets latest := h;  rejection leaves the database unchanged
    (r.accepted ==> is_next_block(r.kind, r.h, d.latest_some, d.latest))
    && (r.accepted ==> d2 == Db { latest_some: true, latest: r.h })
    && (!r.accepted ==> d2 == d)
}
pub open spec fn step_at(ds: Seq<Db>, rs: Seq<Req>, i: int) -> bool { step_ok(ds[i], rs[i], ds[i + 1]) }
pub open spec fn valid_run(ds: Seq<Db>, rs: Seq<Req>) -> bool {
    ds.len() == rs.len() + 1 && forall|i: int| 0 <= i < rs.len() ==> #[trigger] step_at(ds, rs, i)
}
// number of accepted requests among the first k
pub open spec fn accepted_upto(rs: Seq<Req>, k: int) -> int
    decreases k
{
    if k <= 0 { 0 } else { accepted_upto(rs, k - 1) + if rs[k - 1].accepted { 1int } else { 0int } }
}

pub proof fn lemma_heights_consecutive(ds: Seq<Db>, rs: Seq<Req>, k: int)
    requires valid_run(ds, rs), 0 <= k <= rs.len(), !ds[0].latest_some,
    ensures
        // after k requests: nothing accepted yet <=> database still empty; otherwise latest = first + (#accepted - 1)
        accepted_upto(rs, k) >= 0,
        accepted_upto(rs, k) == 0 <==> !ds[k].latest_some,
        forall|i: int| 0 <= i < k && #[trigger] rs[i].accepted ==>
            (ds[i].latest_some ==> rs[i].h == ds[i].latest + 1) && ds[i + 1].latest == rs[i].h && ds[i + 1].latest_some,
        // genesis consensus is accepted only as the very first accepted block
        forall|i: int| 0 <= i < k && #[trigger] rs[i].accepted && rs[i].kind == 0 ==> accepted_upto(rs, i) == 0,
    decreases k,
{
    if k > 0 {
        lemma_heights_consecutive(ds, rs, k - 1);
        assert(step_at(ds, rs, k - 1));
    }
}

// committed heights strictly increase by exactly one between consecutive accepted requests i < j
pub proof fn lemma_no_height_twice(ds: Seq<Db>, rs: Seq<Req>, i: int, j: int)
    requires valid_run(ds, rs), !ds[0].latest_some, 0 <= i < j < rs.len(), rs[i].accepted, rs[j].accepted,
    ensures rs[j].h as int >= rs[i].h as int + 1,
    decreases j - i,
{
    lemma_heights_consecutive(ds, rs, rs.len() as int);
    assert(step_at(ds, rs, i));
    lemma_latest_monotone(ds, rs, i + 1, j);
    assert(step_at(ds, rs, j));
}

pub proof fn lemma_latest_monotone(ds: Seq<Db>, rs: Seq<Req>, a: int, b: int)
    requires valid_run(ds, rs), 0 <= a <= b <= rs.len(), ds[a].latest_some,
    ensures ds[b].latest_some, ds[b].latest >= ds[a].latest,
    decreases b - a,
{
    if a < b {
        lemma_latest_monotone(ds, rs, a, b - 1);
        assert(step_at(ds, rs, b - 1));
    }
}

pub proof fn lemma_run_exists()
    ensures exists|ds: Seq<Db>, rs: Seq<Req>| valid_run(ds, rs) && rs.len() == 2 && rs[1].accepted,
{
    let d0 = Db { latest_some: false, latest: 0 };
    let d1 = Db { latest_some: true, latest: 7 };
    let d2 = Db { latest_some: true, latest: 8 };
    let ds = seq![d0, d1, d2];
    let rs = seq![Req { kind: 0, h: 7, accepted: true }, Req { kind: 1, h: 8, accepted: true }];
    assert(step_at(ds, rs, 0));
    assert(step_at(ds, rs, 1));
    assert(valid_run(ds, rs));
}

} // verus!
fn main() {}
