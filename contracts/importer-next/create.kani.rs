// Scratch crate generated on every run. Pasted from /repo's current working tree (header and body byte for byte):
//   importer/src/importer.rs : create_block_changes
// (The same function is also verified spliced into the real crate - harness.kani.rs, thorough tier; this extracted copy
// gives the quick tier the same obligations in seconds.) Stand-ins: the database ports answer as the harness chose; a
// sealed block carries its height and one of three consensus kinds.
#![allow(unused)]
extern crate alloc;
use core::cell::Cell;
//@ include pred.rs

#[derive(Clone, Copy, Debug, PartialEq, Eq)] pub struct ChainId(pub u64);
#[derive(Clone, Copy, Debug, PartialEq, Eq)] pub struct BlockHeight(pub u32);
impl From<u32> for BlockHeight { fn from(h: u32) -> Self { BlockHeight(h) } }
impl BlockHeight { pub fn checked_add(self, d: u32) -> Option<u32> { self.0.checked_add(d) } }
pub struct Header { pub height: BlockHeight }
impl Header { pub fn height(&self) -> &BlockHeight { &self.height } }
pub struct Block { pub header: Header }
impl Block { pub fn header(&self) -> &Header { &self.header } }
#[derive(Debug)] pub struct Genesis; #[derive(Debug)] pub struct PoAConsensus;
#[derive(Debug)] pub enum Consensus { Genesis(Genesis), PoA(PoAConsensus), Other }
pub struct SealedBlock { pub entity: Block, pub consensus: Consensus }
#[derive(Debug, Default, Clone, Copy, PartialEq, Eq)] pub struct Changes(pub u8);
impl Changes { pub fn new() -> Self { Changes(0) } }
#[derive(Debug)] pub enum StorageError { NotFound(&'static str, &'static str), Other }
macro_rules! not_found { ($name:literal) => { StorageError::NotFound($name, "") }; }
#[derive(Debug)]
pub enum Error { InvalidUnderlyingDatabaseGenesisState, Overflow, ZeroNonGenericHeight, IncorrectBlockHeight(BlockHeight, BlockHeight), NotUnique(BlockHeight), Storage(StorageError), UnsupportedConsensusVariant(String) }
impl From<StorageError> for Error { fn from(e: StorageError) -> Self { Error::Storage(e) } }
pub type StorageResult<T> = Result<T, StorageError>;
pub trait ImporterDatabase { fn latest_block_height(&self) -> StorageResult<Option<BlockHeight>>; }
pub trait DatabaseTransaction { fn store_new_block(&mut self, chain_id: &ChainId, block: &SealedBlock) -> StorageResult<bool>; fn into_changes(self) -> Changes; }
pub trait Transactional { type Transaction<'a>: DatabaseTransaction where Self: 'a; fn storage_transaction(&self, changes: Changes) -> Self::Transaction<'_>; }
pub struct MockDb { pub latest: u8, pub h: u32, pub store: u8, pub calls: Cell<u32>, pub called_for: Cell<u32> }
pub struct MockTx<'a> { db: &'a MockDb, changes: Changes }
impl ImporterDatabase for MockDb { fn latest_block_height(&self) -> StorageResult<Option<BlockHeight>> { match self.latest { 0 => Err(StorageError::Other), 1 => Ok(None), _ => Ok(Some(BlockHeight(self.h))) } } }
impl<'a> DatabaseTransaction for MockTx<'a> {
    fn store_new_block(&mut self, _c: &ChainId, block: &SealedBlock) -> StorageResult<bool> { self.db.calls.set(self.db.calls.get() + 1); self.db.called_for.set(block.entity.header.height.0); match self.db.store { 0 => Err(StorageError::Other), 1 => Ok(false), _ => Ok(true) } }
    fn into_changes(self) -> Changes { self.changes }
}
impl Transactional for MockDb { type Transaction<'a> = MockTx<'a>; fn storage_transaction(&self, changes: Changes) -> MockTx<'_> { MockTx { db: self, changes } } }

//@ extract crates/services/importer/src/importer.rs create_block_changes
//@ end

#[cfg(kani)] fn fmt_stub(_a: core::fmt::Arguments<'_>) -> String { String::new() }
//@ harness kind=proof tier=quick timeout=600 extra="--default-unwind 3"
#[cfg(kani)] #[kani::proof] #[kani::stub(alloc::fmt::format, fmt_stub)]
fn c08_create_block_changes_extracted() {
    let kind: u8 = kani::any(); kani::assume(kind <= 2);
    let h: u32 = kani::any();
    let db = MockDb { latest: kani::any(), h: kani::any(), store: kani::any(), calls: Cell::new(0), called_for: Cell::new(0) };
    kani::assume(db.latest <= 2 && db.store <= 2);
    let sealed = SealedBlock { entity: Block { header: Header { height: BlockHeight(h) } }, consensus: match kind { 0 => Consensus::Genesis(Genesis), 1 => Consensus::PoA(PoAConsensus), _ => Consensus::Other } };
    let r = create_block_changes(&ChainId(kani::any()), &sealed, &db);
    let ok = r.is_ok();
    core::mem::forget(r);
    let (calls, called_for) = (db.calls.get(), db.called_for.get());
    let next = kind <= 1 && is_next_block(kind, h, db.latest == 2, db.h);
    kani::cover!(ok && kind == 0, "[C08.importer-next.create.cover-genesis-accepted]");
    kani::cover!(ok && kind == 1 && h > 1, "[C08.importer-next.create.cover-poa-accepted]");
    kani::cover!(!ok && db.latest == 2 && kind == 1 && h > db.h, "[C08.importer-next.create.cover-gap-rejected]");
    kani::assert(!ok || next, "[C08.importer-next.create.accepted-only-at-next-height]");
    kani::assert(!ok || (calls == 1 && db.store == 2), "[C08.importer-next.create.accepted-only-if-block-is-new]");
    kani::assert(calls == 0 || (calls == 1 && next && called_for == h), "[C08.importer-next.create.stores-only-the-next-block-once]");
    kani::assert(db.latest != 0 || !ok, "[C08.importer-next.create.db-error-rejects]");
    kani::assert(kind != 2 || !ok, "[C08.importer-next.create.unknown-consensus-kind-rejects]");
}
