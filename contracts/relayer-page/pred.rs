// Shared predicate text (plain Rust for the Kani harness, `open spec fn` for Verus). All `+`/`-` are
// guarded so that machine and mathematical meaning coincide.
// P abstracts EthSyncPage: current = start..=cur_end, page size, and the end of the whole gap.

#[derive(Clone, Copy)]
pub struct P { pub start: u64, pub cur_end: u64, pub size: u64, pub end: u64 }

// well-formed page: non-empty, inside the gap, and either a full page or the (clamped) last one
pub fn wf_page(p: P) -> bool {
    p.size > 0 && p.start <= p.cur_end && p.cur_end <= p.end && p.end < u64::MAX
        && p.cur_end - p.start < p.size
        && (p.cur_end == p.end || (p.cur_end - p.start) + 1 == p.size)
}

// contract of EthSyncGap(oldest, latest).page(sz)
pub fn page_post(oldest: u64, latest: u64, sz: u64, some: bool, p: P) -> bool {
    (some == (sz != 0 && oldest <= latest))
        && (!some || (p.start == oldest && p.end == latest && p.size == sz
            && p.cur_end == (if sz - 1 >= latest - oldest { latest } else { (oldest + (sz - 1)) as u64 })))
}

// contract of p.advance_and_resize(n) for a well-formed p
pub fn advance_post(p: P, n: u64, some: bool, q: P) -> bool {
    (some == (p.cur_end != p.end && n != 0))
        && (!some || (q.start == (p.cur_end + 1) as u64 && q.end == p.end && q.size == n
            && q.cur_end == (if n >= p.end - p.cur_end { p.end } else { (p.cur_end + n) as u64 })))
}
