// Scratch crate generated on every run. Pasted from /repo's current working tree (header and body byte for byte):
//   relayer/src/service/get_logs.rs : write_logs, sort_events_by_log_index, struct DownloadedLogs
// Stand-ins (trusted, listed in unit.toml): the page stream is a scripted source of at most 2 pages (a page or a transport
// error); an alloy Log is reduced to (log index, kind, DA height, identity) and EthEventLog::try_from to a match on the kind
// (message / transaction / ignored / undecodable); Vec is a fixed-capacity list (2) offering what the text uses (into_iter, map,
// collect, sort_by, push); HashMap<DaBlockHeight, Vec<Event>> is an association list; the database records insert_events calls.
#![allow(unused)]
use core::cmp::Ordering;

#[derive(Clone, Copy, Debug, Default, PartialEq, Eq, PartialOrd, Ord)] pub struct DaBlockHeight(pub u64);
impl From<u64> for DaBlockHeight { fn from(h: u64) -> Self { DaBlockHeight(h) } }
#[derive(Clone, Copy, Debug, Default, PartialEq, Eq)]
pub struct Log { pub log_index: Option<u64>, pub kind: u8, pub da_height: u64, pub id: u8 }
#[derive(Clone, Copy, Debug, Default, PartialEq, Eq)] pub struct Message { pub da_height: u64, pub id: u8 }
#[derive(Clone, Copy, Debug, Default, PartialEq, Eq)] pub struct RelayedTransaction { pub da_height: u64, pub id: u8 }
pub struct MessageLog(pub Log); pub struct TransactionLog(pub Log);
impl From<&MessageLog> for Message { fn from(m: &MessageLog) -> Self { Message { da_height: m.0.da_height, id: m.0.id } } }
impl From<TransactionLog> for RelayedTransaction { fn from(t: TransactionLog) -> Self { RelayedTransaction { da_height: t.0.da_height, id: t.0.id } } }
pub enum EthEventLog { Message(MessageLog), Transaction(TransactionLog), Ignored }
impl TryFrom<&Log> for EthEventLog {
    type Error = anyhow::Error;
    fn try_from(l: &Log) -> Result<Self, anyhow::Error> { match l.kind { 0 => Ok(EthEventLog::Message(MessageLog(*l))), 1 => Ok(EthEventLog::Transaction(TransactionLog(*l))), 2 => Ok(EthEventLog::Ignored), _ => Err(anyhow::anyhow!("undecodable")) } }
}
#[derive(Clone, Copy, Debug, PartialEq, Eq)] pub enum Event { Message(Message), Transaction(RelayedTransaction) }
impl Default for Event { fn default() -> Self { Event::Message(Message::default()) } }
impl Event {
    pub fn da_height(&self) -> DaBlockHeight { match self { Event::Message(m) => DaBlockHeight(m.da_height), Event::Transaction(t) => DaBlockHeight(t.da_height) } }
    pub fn id(&self) -> u8 { match self { Event::Message(m) => m.id, Event::Transaction(t) => t.id } }
}
#[derive(Debug)] pub struct TransportError;
impl core::fmt::Display for TransportError { fn fmt(&self, _f: &mut core::fmt::Formatter<'_>) -> core::fmt::Result { Ok(()) } }
impl std::error::Error for TransportError {}
#[derive(Debug)] pub struct StorageError;
impl core::fmt::Display for StorageError { fn fmt(&self, _f: &mut core::fmt::Formatter<'_>) -> core::fmt::Result { Ok(()) } }
impl std::error::Error for StorageError {}
pub type StorageResult<T> = Result<T, StorageError>;

/// Vec stand-in: capacity 2, contiguous (so `&Vec<T>` derefs to `&[T]`)
pub const CAP: usize = 2;
#[derive(Clone, Copy, Debug)] pub struct Vec<T: Copy + Default> { pub items: [T; CAP], pub n: usize }
impl<T: Copy + Default> Default for Vec<T> { fn default() -> Self { Vec::new() } }
impl<T: Copy + Default> Vec<T> {
    pub fn new() -> Self { Vec { items: [T::default(); CAP], n: 0 } }
    pub fn push(&mut self, t: T) { if self.n < CAP { self.items[self.n] = t; self.n += 1; } else { OVERFLOW.store(true, core::sync::atomic::Ordering::Relaxed); } }
    pub fn len(&self) -> usize { self.n }
    pub fn is_empty(&self) -> bool { self.n == 0 }
    pub fn iter(&self) -> core::slice::Iter<'_, T> { self.items[..self.n].iter() }
    /// stable sort (insertion sort), like slice::sort_by
    pub fn sort_by<F: FnMut(&T, &T) -> Ordering>(&mut self, mut cmp: F) {
        let mut i = 1;
        while i < CAP { if i < self.n { let mut j = i; while j > 0 { if cmp(&self.items[j - 1], &self.items[j]) == Ordering::Greater { self.items.swap(j - 1, j); j -= 1; } else { break } } } i += 1; }
    }
}
pub static OVERFLOW: core::sync::atomic::AtomicBool = core::sync::atomic::AtomicBool::new(false);
impl<T: Copy + Default> core::ops::Deref for Vec<T> { type Target = [T]; fn deref(&self) -> &[T] { &self.items[..self.n] } }
pub struct VecIntoIter<T: Copy + Default>(Vec<T>, usize);
impl<T: Copy + Default> Iterator for VecIntoIter<T> { type Item = T; fn next(&mut self) -> Option<T> { if self.1 < self.0.n && self.1 < CAP { let t = self.0.items[self.1]; self.1 += 1; Some(t) } else { None } } }
impl<T: Copy + Default> IntoIterator for Vec<T> { type Item = T; type IntoIter = VecIntoIter<T>; fn into_iter(self) -> VecIntoIter<T> { VecIntoIter(self, 0) } }
impl<T: Copy + Default> FromIterator<T> for Vec<T> { fn from_iter<I: IntoIterator<Item = T>>(it: I) -> Self { let mut v = Vec::new(); for t in it { v.push(t); } v } }
/// HashMap stand-in: association list (capacity 2 keys)
pub struct HashMap<K: Copy + Default + PartialEq, V: Default + Copy> { pub keys: [K; CAP], pub vals: [V; CAP], pub n: usize }
pub struct Entry<'a, V>(&'a mut V);
impl<'a, V: Default> Entry<'a, V> { pub fn or_default(self) -> &'a mut V { self.0 } pub fn or_insert_with<F: FnOnce() -> V>(self, _f: F) -> &'a mut V { self.0 } }
impl<K: Copy + Default + PartialEq, V: Default + Copy> HashMap<K, V> {
    pub fn new() -> Self { HashMap { keys: [K::default(); CAP], vals: [V::default(); CAP], n: 0 } }
    fn find(&self, k: &K) -> Option<usize> { let mut i = 0; while i < CAP { if i < self.n && self.keys[i] == *k { return Some(i) } i += 1; } None }
    pub fn entry(&mut self, k: K) -> Entry<'_, V> {
        let i = match self.find(&k) { Some(i) => i, None => { if self.n < CAP { self.keys[self.n] = k; self.vals[self.n] = V::default(); self.n += 1; self.n - 1 } else { OVERFLOW.store(true, core::sync::atomic::Ordering::Relaxed); CAP - 1 } } };
        Entry(&mut self.vals[i])
    }
    pub fn get(&self, k: &K) -> Option<&V> { match self.find(k) { Some(i) => Some(&self.vals[i]), None => None } }
    pub fn contains_key(&self, k: &K) -> bool { self.find(k).is_some() }
}

pub trait RelayerDb { fn insert_events(&mut self, da_height: &DaBlockHeight, events: &[Event]) -> StorageResult<()>; }
/// records every insert_events call: (height, number of events, ids of the first two events)
pub struct Db { pub calls: [(u64, usize, u8, u8); 4], pub n: usize, pub fail_at: usize }
impl RelayerDb for Db {
    fn insert_events(&mut self, h: &DaBlockHeight, events: &[Event]) -> StorageResult<()> {
        if self.n == self.fail_at { return Err(StorageError) }
        if self.n < 4 { self.calls[self.n] = (h.0, events.len(), if events.len() > 0 { events[0].id() } else { 0 }, if events.len() > 1 { events[1].id() } else { 0 }); }
        self.n += 1; Ok(())
    }
}
pub mod futures { pub trait Stream { type Item; fn next_item(&mut self) -> Option<Self::Item>; } }
pub trait TryStreamExt<T, E>: futures::Stream<Item = Result<T, E>> {
    async fn try_next(&mut self) -> Result<Option<T>, E> { match self.next_item() { Some(Ok(t)) => Ok(Some(t)), Some(Err(e)) => Err(e), None => Ok(None) } }
}
impl<T, E, S: futures::Stream<Item = Result<T, E>>> TryStreamExt<T, E> for S {}
pub mod tokio { macro_rules! pin { ($x:ident) => { let mut $x = $x; }; } pub(crate) use pin; }
pub struct Pages { pub pages: [Option<Result<DownloadedLogs, TransportError>>; 2], pub at: usize }
impl futures::Stream for Pages { type Item = Result<DownloadedLogs, TransportError>; fn next_item(&mut self) -> Option<Self::Item> { if self.at < 2 { let p = self.pages[self.at].take(); self.at += 1; p } else { None } } }

//@ extract crates/services/relayer/src/service/get_logs.rs struct DownloadedLogs
//@ end
//@ extract crates/services/relayer/src/service/get_logs.rs write_logs
//@ end
//@ extract crates/services/relayer/src/service/get_logs.rs sort_events_by_log_index
//@ end

#[cfg(kani)] fn fmt_stub(_a: core::fmt::Arguments<'_>) -> String { String::new() }
#[cfg(kani)]
fn any_log(lo: u64, hi: u64) -> Log { let l = Log { log_index: if kani::any() { Some(kani::any()) } else { None }, kind: kani::any(), da_height: kani::any(), id: kani::any() }; kani::assume(l.kind <= 3 && l.da_height >= lo && l.da_height <= hi); l }

// One downloaded page covering DA heights [start, last] (at most 2 heights) with at most 2 logs: every height of the page gets
// exactly one insert_events call, in ascending order, carrying exactly the page's fuel events of that height in log-index order
// (ignored logs dropped); an undecodable log or a log without index fails the whole page before anything of it is written.
#[cfg(kani)]
fn page_case(n_logs: usize) {
    let start: u64 = kani::any(); let span: u64 = kani::any(); kani::assume(span <= 1 && start <= u64::MAX - 3);
    let last = start + span;
    let (l0, l1) = (any_log(start, last), any_log(start, last));
    kani::assume(l0.id != l1.id && l0.id != 0 && l1.id != 0);
    let mut logs = Vec::new(); if n_logs >= 1 { logs.push(l0); } if n_logs >= 2 { logs.push(l1); }
    let pages = Pages { pages: [Some(Ok(DownloadedLogs { start_height: start, last_height: last, logs })), None], at: 0 };
    let mut db = Db { calls: [(0, 0, 0, 0); 4], n: 0, fail_at: usize::MAX };
    let r = kani::block_on(write_logs(&mut db, pages));
    let ok = r.is_ok(); core::mem::forget(r);
    let bad = |l: &Log| l.log_index.is_none() || l.kind == 3;
    let any_bad = (n_logs >= 1 && bad(&l0)) || (n_logs >= 2 && bad(&l1));
    kani::assert(ok == !any_bad, "[C29.relayer-page.write.page-fails-exactly-when-a-log-has-no-index-or-cannot-be-decoded]");
    if !ok { kani::assert(db.n == 0, "[C29.relayer-page.write.nothing-of-a-failed-page-is-written]"); return }
    kani::assert(db.n == (span + 1) as usize, "[C29.relayer-page.write.every-height-of-the-page-is-written-exactly-once]");
    let mut k = 0; let mut ascending = true;
    while k < 2 { if k < db.n && db.calls[k].0 != start + k as u64 { ascending = false } k += 1; }
    kani::assert(ascending, "[C29.relayer-page.write.heights-are-written-in-ascending-order-without-gaps]");
    // expected events per height: fuel logs (kind 0/1) of that height ordered by log index (stable)
    let fuel = |l: &Log| l.kind <= 1;
    let (first, second) = if n_logs >= 2 && l1.log_index.unwrap_or(0) < l0.log_index.unwrap_or(0) { (l1, l0) } else { (l0, l1) };
    let mut k = 0;
    while k < 2 {
        if k < db.n {
            let h = start + k as u64;
            let a = n_logs >= 1 && fuel(&first) && first.da_height == h; let b = n_logs >= 2 && fuel(&second) && second.da_height == h;
            let want = (h, a as usize + b as usize, if a { first.id } else if b { second.id } else { 0 }, if a && b { second.id } else { 0 });
            kani::assert(db.calls[k] == want, "[C29.relayer-page.write.each-height-gets-exactly-its-fuel-events-in-log-index-order]");
        }
        k += 1;
    }
    kani::cover!(n_logs >= 1 && fuel(&l0) && l0.da_height == last && span == 1, "[C29.relayer-page.write.cover-event-at-the-second-height-of-the-page]");
}
//@ harness kind=bounded tier=thorough prop=C29 bound="pages of at most 2 DA heights and 1 log" timeout=2400 extra="-Z async-lib --default-unwind 3"
#[cfg(kani)] #[kani::proof] #[kani::stub(alloc::fmt::format, fmt_stub)]
fn c29_write_page_one_log() { page_case(1) }

// (Harnesses for pages with 2 logs and for 2 pages / transport and storage errors were written too; CBMC's symbolic execution of
// the iterator-adapter chains inside the async state machine needs > 20 min for the 1-log case already, so only that case is
// run, in the thorough tier.)
