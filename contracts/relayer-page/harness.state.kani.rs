// Contract harnesses for crates/services/relayer/src/service/state.rs. Loop-free u64 code, full domain:
// complete proofs.
use super::*;
//@ include pred.rs

fn abs(p: &EthSyncPage) -> P {
    P { start: *p.current.start(), cur_end: *p.current.end(), size: p.size, end: p.end }
}
fn any_wf_page() -> EthSyncPage {
    let p = P { start: kani::any(), cur_end: kani::any(), size: kani::any(), end: kani::any() };
    kani::assume(wf_page(p));
    EthSyncPage { current: p.start..=p.cur_end, size: p.size, end: p.end }
}
const DUMMY: P = P { start: 0, cur_end: 0, size: 0, end: 0 };

//@ harness kind=proof tier=quick
#[kani::proof]
fn c29_gap_page() {
    let oldest: u64 = kani::any();
    let latest: u64 = kani::any();
    kani::assume(latest < u64::MAX);
    let sz: u64 = kani::any();
    let r = EthSyncGap::new(oldest, latest).page(sz);
    let (some, p) = match &r { Some(p) => (true, abs(p)), None => (false, DUMMY) };
    kani::cover!(some && p.cur_end < p.end, "[C29.relayer-page.page.cover-first-of-several-pages]");
    kani::assert(page_post(oldest, latest, sz, some, p), "[C29.relayer-page.page.first-page-starts-at-oldest-and-spans-min-of-size-and-gap]");
    kani::assert(!some || wf_page(p), "[C29.relayer-page.page.result-well-formed]");
}

//@ harness kind=proof tier=quick
#[kani::proof]
fn c29_advance_and_resize() {
    let page = any_wf_page();
    let p = abs(&page);
    let n: u64 = kani::any();
    let r = page.advance_and_resize(n);
    let (some, q) = match &r { Some(q) => (true, abs(q)), None => (false, DUMMY) };
    kani::cover!(some && q.cur_end < q.end, "[C29.relayer-page.advance_and_resize.cover-middle-page]");
    kani::cover!(some && q.cur_end == q.end && n > 1, "[C29.relayer-page.advance_and_resize.cover-last-page-clamped]");
    kani::assert(advance_post(p, n, some, q), "[C29.relayer-page.advance_and_resize.next-page-starts-right-after-current-and-is-clamped-to-gap]");
    kani::assert(!some || wf_page(q), "[C29.relayer-page.advance_and_resize.result-well-formed]");
}

//@ harness kind=proof tier=quick
#[kani::proof]
fn c29_advance() {
    let page = any_wf_page();
    let p = abs(&page);
    let r = page.advance();
    let (some, q) = match &r { Some(q) => (true, abs(q)), None => (false, DUMMY) };
    kani::cover!(some, "[C29.relayer-page.advance.cover-some]");
    kani::assert(advance_post(p, p.size, some, q), "[C29.relayer-page.advance.is-advance-and-resize-with-same-size]");
    kani::assert(!some || wf_page(q), "[C29.relayer-page.advance.result-well-formed]");
}

// needs_to_sync_eth: the gap starts right after the local height and ends at the remote height
//@ harness kind=proof tier=quick
#[kani::proof]
fn c29_needs_to_sync() {
    let remote: u64 = kani::any();
    let local: u64 = kani::any();
    let s = EthState { remote, local };
    let g = s.needs_to_sync_eth();
    kani::cover!(g.is_some(), "[C29.relayer-page.gap.cover-some]");
    kani::assert(g.is_some() == (local < remote), "[C29.relayer-page.gap.exists-iff-local-behind-remote]");
    kani::assert(match &g { Some(g) => g.oldest() == local + 1 && g.latest() == remote, None => true },
        "[C29.relayer-page.gap.is-local-plus-one-to-remote]");
}

// Vacuity canary: "advance never yields a further page" must FAIL.
//@ harness kind=canary tier=quick expect=C29.relayer-page.canary.advance-always-none
#[kani::proof]
fn c29_canary() {
    let page = any_wf_page();
    let r = page.advance_and_resize(kani::any());
    kani::assert(r.is_none(), "[C29.relayer-page.canary.advance-always-none]");
}
