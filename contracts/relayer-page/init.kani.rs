// Scratch crate generated on every run. Pasted from /repo's current working tree (header and body byte for byte):
//   relayer/src/service.rs : NotInitializedTask::new
// Stand-ins (trusted, listed in unit.toml): RelayerDb::get_finalized_da_height answers as the harness chose; tokio's
// watch::channel keeps the initial value; Config keeps da_deploy_height; SyncState has its two variants.
#![allow(unused)]
#[derive(Clone, Copy, Debug, PartialEq, Eq, PartialOrd, Ord)]
pub struct DaBlockHeight(pub u64);
impl From<u64> for DaBlockHeight { fn from(h: u64) -> Self { DaBlockHeight(h) } }
#[derive(Clone, Copy, Debug, PartialEq, Eq)]
pub enum SyncState { PartiallySynced(DaBlockHeight), Synced(DaBlockHeight) }
pub mod watch {
    pub struct Sender<T>(pub T);
    pub struct Receiver<T>(pub core::marker::PhantomData<T>);
    pub fn channel<T>(init: T) -> (Sender<T>, Receiver<T>) { (Sender(init), Receiver(core::marker::PhantomData)) }
}
pub struct Config { pub da_deploy_height: DaBlockHeight }
pub trait Provider {}
pub trait RelayerDb { fn get_finalized_da_height(&self) -> Option<DaBlockHeight>; }
pub struct Node; impl Provider for Node {}
pub struct Db(pub Option<u64>);
impl RelayerDb for Db { fn get_finalized_da_height(&self) -> Option<DaBlockHeight> { self.0.map(DaBlockHeight) } }
pub struct NotInitializedTask<P, D> { pub synced: watch::Sender<SyncState>, pub eth_node: P, pub database: D, pub config: Config, pub retry_on_error: bool }
impl<P, D> NotInitializedTask<P, D> where P: Provider + 'static, D: RelayerDb + 'static {
//@ extract crates/services/relayer/src/service.rs NotInitializedTask::new
//@ end
}

// A fresh relayer starts "synced up to just before the deployment height" (so the first DA height it requests is the
// deployment height itself); a restarted one continues from the finalized height the database holds.
//@ harness kind=proof tier=quick timeout=600
#[cfg(kani)]
#[kani::proof]
fn c29_initial_synced_height() {
    let stored: Option<u64> = if kani::any() { Some(kani::any()) } else { None };
    let deploy: u64 = kani::any();
    let t = NotInitializedTask::new(Node, Db(stored), Config { da_deploy_height: DaBlockHeight(deploy) }, kani::any());
    let want = match stored { Some(h) => h, None => if deploy == 0 { 0 } else { deploy - 1 } };
    kani::cover!(stored.is_none() && deploy > 0, "[C29.relayer-page.init.cover-fresh-database]");
    kani::assert(t.synced.0 == SyncState::PartiallySynced(DaBlockHeight(want)), "[C29.relayer-page.init.starts-at-stored-height-or-just-before-the-deployment-height]");
    // together with needs_to_sync_eth (local+1 ..= remote): the first height a fresh relayer requests is the deployment height
    if stored.is_none() && deploy > 0 { kani::assert(want + 1 == deploy, "[C29.relayer-page.init.first-requested-height-of-a-fresh-relayer-is-the-deployment-height]"); }
}
