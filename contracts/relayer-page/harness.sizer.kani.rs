// Contract harness for AdaptivePageSizer::update (crates/services/relayer/src/service.rs). Loop-free, full domain.
use super::*;

//@ harness kind=proof tier=quick timeout=900
#[kani::proof]
fn c29_sizer_update() {
    let mut s = AdaptivePageSizer {
        current: kani::any(), max: kani::any(), successful_rpc_calls: kani::any(),
        grow_threshold: kani::any(), max_logs_per_rpc: kani::any(),
    };
    let (cur, max, calls, thr, max_logs) = (s.current, s.max, s.successful_rpc_calls, s.grow_threshold, s.max_logs_per_rpc);
    let is_err: bool = kani::any();
    let logs: u64 = kani::any();
    let outcome = if is_err { RpcOutcome::Error } else { RpcOutcome::Success { logs_downloaded: logs } };
    s.update(outcome);
    let new = s.page_size();
    let shrink = is_err || logs > max_logs;
    let grow = !shrink && calls.saturating_add(1) >= thr && cur < max;
    kani::cover!(grow && cur > 4, "[C29.relayer-page.sizer.cover-grow]");
    kani::cover!(shrink && cur > 4, "[C29.relayer-page.sizer.cover-shrink]");
    // the invariant paging relies on: a page size of at least one stays at least one
    kani::assert(cur == 0 || new >= 1, "[C29.relayer-page.sizer.page-size-stays-at-least-one]");
    kani::assert(!shrink || new == (if cur / 2 > 1 { cur / 2 } else { 1 }), "[C29.relayer-page.sizer.halves-on-error-or-too-many-logs]");
    kani::assert(!grow || (new > cur && new <= max), "[C29.relayer-page.sizer.growth-is-strict-and-capped-at-max]");
    kani::assert(shrink || grow || new == cur, "[C29.relayer-page.sizer.otherwise-unchanged]");
    kani::assert(new <= (if cur > max { cur } else { max }).max(1), "[C29.relayer-page.sizer.never-above-max-of-current-and-configured-max]");
}
