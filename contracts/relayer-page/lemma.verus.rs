// From the per-call contracts of EthSyncGap::page / EthSyncPage::advance_and_resize (proved by Kani on the
// real code) to: for ANY sequence of page sizes >= 1, the pages requested while syncing a gap are
// consecutive, disjoint and their union is exactly [oldest, latest] - no DA height skipped or requested twice -
// and paging terminates.
use vstd::prelude::*;
verus! {

//@ include-pred pred.rs

// pages[0] = gap.page(sizes[0]); pages[i+1] = pages[i].advance_and_resize(sizes[i+1]), every call returned Some
pub open spec fn step_at(pages: Seq<P>, sizes: Seq<u64>, i: int) -> bool {
    advance_post(pages[i], sizes[i + 1], true, pages[i + 1])
}
pub open spec fn paging(oldest: u64, latest: u64, pages: Seq<P>, sizes: Seq<u64>) -> bool {
    pages.len() >= 1 && sizes.len() == pages.len()
    && page_post(oldest, latest, sizes[0], true, pages[0])
    && forall|i: int| 0 <= i < pages.len() - 1 ==> #[trigger] step_at(pages, sizes, i)
}

pub proof fn lemma_pages_tile_a_prefix(oldest: u64, latest: u64, pages: Seq<P>, sizes: Seq<u64>, k: int)
    requires paging(oldest, latest, pages, sizes), latest < u64::MAX, 0 <= k < pages.len(),
    ensures
        wf_page(pages[k]),
        pages[k].end == latest,
        pages[0].start == oldest,
        k > 0 ==> pages[k].start == pages[k - 1].cur_end + 1,     // consecutive and disjoint
        oldest <= pages[k].start <= pages[k].cur_end <= latest,      // inside the gap
        pages[k].cur_end - oldest + 1 >= k + 1,                      // progress: at least one new height per page
    decreases k,
{
    if k > 0 {
        lemma_pages_tile_a_prefix(oldest, latest, pages, sizes, k - 1);
        assert(step_at(pages, sizes, k - 1));
    }
}

// when paging stops although the page size is >= 1, the last page ends exactly at `latest`
pub proof fn lemma_stop_means_done(oldest: u64, latest: u64, pages: Seq<P>, sizes: Seq<u64>, n: u64, q: P)
    requires paging(oldest, latest, pages, sizes), latest < u64::MAX, n >= 1,
             advance_post(pages[pages.len() - 1], n, false, q),
    ensures pages[pages.len() - 1].cur_end == latest,
{
    lemma_pages_tile_a_prefix(oldest, latest, pages, sizes, pages.len() - 1);
}

// termination: there can be at most (latest - oldest + 1) pages
pub proof fn lemma_paging_terminates(oldest: u64, latest: u64, pages: Seq<P>, sizes: Seq<u64>)
    requires paging(oldest, latest, pages, sizes), latest < u64::MAX,
    ensures pages.len() <= latest - oldest + 1,
{
    lemma_pages_tile_a_prefix(oldest, latest, pages, sizes, pages.len() - 1);
}

// vacuity guard: a two-page run exists
pub proof fn lemma_run_exists()
    ensures exists|pages: Seq<P>, sizes: Seq<u64>| paging(10, 14, pages, sizes) && pages.len() == 2,
{
    let p0 = P { start: 10, cur_end: 12, size: 3, end: 14 };
    let p1 = P { start: 13, cur_end: 14, size: 5, end: 14 };
    let pages = seq![p0, p1];
    let sizes = seq![3u64, 5u64];
    assert(step_at(pages, sizes, 0));
    assert(paging(10, 14, pages, sizes));
}

} // verus!
fn main() {}
