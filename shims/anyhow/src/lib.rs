//! Verification shim for `anyhow` 1.0.x used ONLY in the Kani overlay / scratch crates of /verif.
//!
//! `Error` is a zero-sized value: every constructor evaluates its argument expressions (so side
//! effects and panics in them are kept) but discards the message, the source error and the
//! backtrace. Consequences, all listed as assumptions in the evidence files:
//!   * Ok/Err-ness of every `anyhow::Result` is preserved exactly; error *content* is not modelled;
//!   * `downcast*` / `is` always answer "no"; `Display`/`Debug` print a fixed text;
//!   * no heap allocation, no vtable, no std::backtrace (whose drop glue has unbounded loops that
//!     CBMC cannot unwind).
#![allow(dead_code)]
use core::fmt::{self, Debug, Display};
use std::error::Error as StdError;

pub struct Error(());

pub type Result<T, E = Error> = core::result::Result<T, E>;

#[allow(non_snake_case)]
pub fn Ok<T>(t: T) -> Result<T> {
    Result::Ok(t)
}

#[derive(Debug)]
struct Opaque;
impl Display for Opaque {
    fn fmt(&self, f: &mut fmt::Formatter<'_>) -> fmt::Result {
        f.write_str("error (anyhow verification shim: payload discarded)")
    }
}
impl StdError for Opaque {}
static OPAQUE: Opaque = Opaque;

impl Error {
    #[doc(hidden)]
    #[inline(always)]
    pub fn __shim() -> Self {
        Error(())
    }
    pub fn new<E>(error: E) -> Self
    where
        E: StdError + Send + Sync + 'static,
    {
        let _ = error;
        Error(())
    }
    pub fn msg<M>(message: M) -> Self
    where
        M: Display + Debug + Send + Sync + 'static,
    {
        let _ = message;
        Error(())
    }
    pub fn from_boxed(error: Box<dyn StdError + Send + Sync + 'static>) -> Self {
        core::mem::forget(error);
        Error(())
    }
    pub fn context<C>(self, context: C) -> Self
    where
        C: Display + Send + Sync + 'static,
    {
        let _ = context;
        self
    }
    pub fn chain(&self) -> Chain<'_> {
        Chain { done: false, _p: core::marker::PhantomData }
    }
    pub fn root_cause(&self) -> &(dyn StdError + 'static) {
        &OPAQUE
    }
    pub fn is<E>(&self) -> bool
    where
        E: Display + Debug + Send + Sync + 'static,
    {
        false
    }
    pub fn downcast<E>(self) -> Result<E, Self>
    where
        E: Display + Debug + Send + Sync + 'static,
    {
        Err(self)
    }
    pub fn downcast_ref<E>(&self) -> Option<&E>
    where
        E: Display + Debug + Send + Sync + 'static,
    {
        None
    }
    pub fn downcast_mut<E>(&mut self) -> Option<&mut E>
    where
        E: Display + Debug + Send + Sync + 'static,
    {
        None
    }
    pub fn into_boxed_dyn_error(self) -> Box<dyn StdError + Send + Sync + 'static> {
        Box::new(Opaque)
    }
}

pub struct Chain<'a> {
    done: bool,
    _p: core::marker::PhantomData<&'a ()>,
}
impl<'a> Iterator for Chain<'a> {
    type Item = &'a (dyn StdError + 'static);
    fn next(&mut self) -> Option<Self::Item> {
        if self.done {
            None
        } else {
            self.done = true;
            Some(&OPAQUE)
        }
    }
}

impl<E> From<E> for Error
where
    E: StdError + Send + Sync + 'static,
{
    fn from(error: E) -> Self {
        let _ = error;
        Error(())
    }
}

impl Debug for Error {
    fn fmt(&self, f: &mut fmt::Formatter<'_>) -> fmt::Result {
        Display::fmt(&OPAQUE, f)
    }
}
impl Display for Error {
    fn fmt(&self, f: &mut fmt::Formatter<'_>) -> fmt::Result {
        Display::fmt(&OPAQUE, f)
    }
}
impl core::ops::Deref for Error {
    type Target = dyn StdError + Send + Sync + 'static;
    fn deref(&self) -> &Self::Target {
        &OPAQUE
    }
}
impl AsRef<dyn StdError + Send + Sync> for Error {
    fn as_ref(&self) -> &(dyn StdError + Send + Sync + 'static) {
        &OPAQUE
    }
}
impl AsRef<dyn StdError> for Error {
    fn as_ref(&self) -> &(dyn StdError + 'static) {
        &OPAQUE
    }
}
impl From<Error> for Box<dyn StdError + Send + Sync + 'static> {
    fn from(_: Error) -> Self {
        Box::new(Opaque)
    }
}
impl From<Error> for Box<dyn StdError + Send + 'static> {
    fn from(_: Error) -> Self {
        Box::new(Opaque)
    }
}
impl From<Error> for Box<dyn StdError + 'static> {
    fn from(_: Error) -> Self {
        Box::new(Opaque)
    }
}

mod ext {
    pub trait StdErrorExt {
        fn into_shim(self) -> super::Error;
    }
    impl<E> StdErrorExt for E
    where
        E: std::error::Error + Send + Sync + 'static,
    {
        fn into_shim(self) -> super::Error {
            let _ = self;
            super::Error::__shim()
        }
    }
    impl StdErrorExt for super::Error {
        fn into_shim(self) -> super::Error {
            self
        }
    }
    pub trait Sealed {}
    impl<T, E: StdErrorExt> Sealed for Result<T, E> {}
    impl<T> Sealed for Option<T> {}
}

pub trait Context<T, E>: ext::Sealed {
    fn context<C>(self, context: C) -> Result<T, Error>
    where
        C: Display + Send + Sync + 'static;
    fn with_context<C, F>(self, f: F) -> Result<T, Error>
    where
        C: Display + Send + Sync + 'static,
        F: FnOnce() -> C;
}

impl<T, E> Context<T, E> for Result<T, E>
where
    E: ext::StdErrorExt + Send + Sync + 'static,
{
    fn context<C>(self, context: C) -> Result<T, Error>
    where
        C: Display + Send + Sync + 'static,
    {
        match self {
            Result::Ok(t) => Result::Ok(t),
            Err(e) => {
                let _ = context;
                Err(e.into_shim())
            }
        }
    }
    fn with_context<C, F>(self, f: F) -> Result<T, Error>
    where
        C: Display + Send + Sync + 'static,
        F: FnOnce() -> C,
    {
        match self {
            Result::Ok(t) => Result::Ok(t),
            Err(e) => {
                let _ = f();
                Err(e.into_shim())
            }
        }
    }
}

impl<T> Context<T, core::convert::Infallible> for Option<T> {
    fn context<C>(self, context: C) -> Result<T, Error>
    where
        C: Display + Send + Sync + 'static,
    {
        match self {
            Some(t) => Result::Ok(t),
            None => {
                let _ = context;
                Err(Error(()))
            }
        }
    }
    fn with_context<C, F>(self, f: F) -> Result<T, Error>
    where
        C: Display + Send + Sync + 'static,
        F: FnOnce() -> C,
    {
        match self {
            Some(t) => Result::Ok(t),
            None => {
                let _ = f();
                Err(Error(()))
            }
        }
    }
}

#[doc(hidden)]
pub mod __private {
    pub use core::format_args;
    #[inline(always)]
    pub fn touch<T>(t: T) {
        let _ = t;
    }
}

#[macro_export]
macro_rules! anyhow {
    ($msg:literal $(,)?) => {{
        let _ = $crate::__private::format_args!($msg);
        $crate::Error::__shim()
    }};
    ($err:expr $(,)?) => {{
        $crate::__private::touch($err);
        $crate::Error::__shim()
    }};
    ($fmt:expr, $($arg:tt)*) => {{
        let _ = $crate::__private::format_args!($fmt, $($arg)*);
        $crate::Error::__shim()
    }};
}

#[macro_export]
macro_rules! format_err {
    ($($t:tt)*) => { $crate::anyhow!($($t)*) };
}

#[macro_export]
macro_rules! bail {
    ($($t:tt)*) => {
        return ::core::result::Result::Err($crate::anyhow!($($t)*))
    };
}

#[macro_export]
macro_rules! ensure {
    ($cond:expr $(,)?) => {
        if !$cond {
            return ::core::result::Result::Err($crate::Error::__shim());
        }
    };
    ($cond:expr, $($t:tt)*) => {
        if !$cond {
            return ::core::result::Result::Err($crate::anyhow!($($t)*));
        }
    };
}
