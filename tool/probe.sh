#!/usr/bin/env bash
# development aid: run one spliced harness in the overlay for N seconds and summarise where CBMC spends its unwinding
# usage: tool/probe.sh <package> <full::harness::path> <secs> [extra cargo-kani args...]
pkg=$1; h=$2; secs=$3; shift 3
cd /var/tmp/fuel-core-verif/ov-*/ || exit 2
CARGO_NET_OFFLINE=true RUSTFLAGS=--cap-lints=warn CARGO_TARGET_DIR=/verif/.cache/kani-target timeout $secs \
  cargo kani -p $pkg --harness $h --exact -Z function-contracts -Z stubbing "$@" > /tmp/probe.out 2>&1
echo "exit=$?"
grep -c "^Unwinding" /tmp/probe.out
grep "^Unwinding" /tmp/probe.out | sed -E 's/iteration [0-9]+//' | awk '{print $3, $NF, $(NF-3)}' | sort | uniq -c | sort -rn | head -15
grep -v "^Unwinding\|^aborting\|^Not unwinding" /tmp/probe.out | tail -25 | cut -c1-300
