#!/usr/bin/env bash
# usage: tool/confirm_mut.sh <mut-dir> <crate> [extra cargo test args...]
# Confirms independently, in a scratch worktree, that (1) the patched crate compiles and its existing tests pass,
# (2) the demo test fails with the patch, (3) the demo passes without it. Writes <mut-dir>/confirm.json.
set -u
D=$1; CRATE=$2; shift 2; EXTRA="$@"
WT=/tmp/cm
export CARGO_TARGET_DIR=/tmp/cm-target CARGO_NET_OFFLINE=true
[ -d $WT ] || git -C /repo worktree add -q --detach $WT HEAD
git -C $WT checkout -q --detach $(git -C /repo rev-parse HEAD); git -C $WT checkout -- .; git -C $WT clean -fdq
DEMO=$(python3 -c "import json;print(json.load(open('$D/meta.json'))['demo_test'])")
DEMO=${DEMO##*::}
cd $WT
git apply $D/patch.diff || { echo '{"applies": false}' > $D/confirm.json; exit 1; }
nice cargo test -p $CRATE --offline $EXTRA > $D/confirm.existing.log 2>&1; EXIST=$?
git apply $D/demo.diff
nice cargo test -p $CRATE --offline $EXTRA $DEMO > $D/confirm.demo_with.log 2>&1; WITH=$?
git apply -R $D/patch.diff
nice cargo test -p $CRATE --offline $EXTRA $DEMO > $D/confirm.demo_without.log 2>&1; WITHOUT=$?
FAILED=$(grep -E "^test .* FAILED|^    [a-z_:]+$" $D/confirm.existing.log | head -5 | tr '\n' ';')
RAN_WITH=$(grep -c "^test .*$DEMO" $D/confirm.demo_with.log)
echo "{\"applies\": true, \"existing_tests_rc\": $EXIST, \"existing_failed\": \"$FAILED\", \"demo_with_patch_rc\": $WITH, \"demo_without_patch_rc\": $WITHOUT, \"demo_ran\": $RAN_WITH, \"repo_head\": \"$(git -C /repo rev-parse --short HEAD)\"}" > $D/confirm.json
cat $D/confirm.json
git -C $WT checkout -- .; git -C $WT clean -fdq
