#!/usr/bin/env python3
"""Print the prompt given to an independent mutation sub-agent for one property (nothing from /verif leaks)."""
import json, sys
pid = sys.argv[1]
wt = sys.argv[2] if len(sys.argv) > 2 else "/tmp/wt-" + pid
n = sys.argv[3] if len(sys.argv) > 3 else "2"
for l in open('/verif/properties.jsonl'):
    p = json.loads(l)
    if p['id'] == pid:
        break
print(f"""You are helping test a verification tool for the Rust project FuelLabs/fuel-core. Your job is to act as a
realistic source of subtle bugs. You get ONE semantic property of the code base and a private scratch git worktree
of the repository at {wt} (a full checkout; work ONLY inside it; never touch /repo or /verif and do not read
anything under /verif).

PROPERTY {p['id']}: {p['title']}
Statement: {p['statement']}
Quantified over: {p['quantifier']['text']}
Code the property is anchored in: {', '.join(p['anchors']['files'])}
Mechanisms: {'; '.join(m['name'] + ' (' + m['where'] + ')' for m in p['anchors']['mechanism'])}

TASK: produce {n} DIFFERENT changes (mutations) to the source code under {wt}/crates (non-test code), each of which
 (a) BREAKS the property above for some inputs/histories,
 (b) still COMPILES (the whole affected crate, `cargo build -p <crate> --offline`), and
 (c) still PASSES the existing tests of the affected crate(s) unedited (`cargo test -p <crate> --offline`; run them!), and
 (d) needs something SPECIFIC to manifest: an unusual input (boundary value, saturation, a particular ordering), a
     multi-step sequence of operations, two cooperating sites that each look fine alone, a particular configuration -
     NOT something that ordinary use or the existing tests would expose at once.
Prefer realistic edits a tired developer could make (off-by-one in a bound, dropped clamp, swapped comparison,
wrong variable of the same type, missing branch, reordered update, saturating vs wrapping, wrong min/max), 1-10 lines each.
Do not change function signatures, do not rename or remove functions, do not add dependencies.

For EACH mutation i (1..{n}) deliver, under /tmp/mut-{p['id']}-<i>/ (create that directory):
  - patch.diff : `git diff` of the source change only (must apply to a clean checkout with `git apply`)
  - demo.diff  : a separate `git diff` that ONLY ADDS a new #[test] (in an existing tests module or a new tests file of the
                 crate) which FAILS with patch.diff applied and PASSES without it; it demonstrates the property violation
                 through the crate's real API (private access from an in-crate test module is fine)
  - meta.json  : {{"property": "{p['id']}", "what_breaks": "...", "needs_to_manifest": "...", "crate": "...",
                  "demo_test": "<test name>", "commands_run": ["..."], "existing_tests_pass_with_patch": true/false}}
Procedure per mutation: start from a clean tree (`git -C {wt} checkout -- . && git -C {wt} clean -fdq -e target`), make the
source edit, save patch.diff, run the crate's existing tests (must pass), add the demo test, run it (must fail), save
demo.diff, then revert the source edit keeping the demo and run the demo test again (must pass).
Use `export CARGO_TARGET_DIR={wt}/target CARGO_NET_OFFLINE=true` and always pass `--offline`; there is no network. Build only
the crates you need (-p). The first build can take several minutes. When completely done, run
`rm -rf {wt}/target` to free disk, leave the worktree clean (`git -C {wt} checkout -- . && git -C {wt} clean -fdq`), and reply with a short summary: for each mutation the directory, one sentence on what
it breaks, and whether every step (a)-(d) was confirmed by an actual run.""")
