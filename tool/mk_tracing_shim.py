#!/usr/bin/env python3
"""Produce a mechanical no-op copy of the registry's tracing crate.

Kani 0.68 ICEs (kani-compiler/src/intrinsics.rs) whenever std::panic::catch_unwind is
syntactically reachable; real `tracing` macros reach it through the thread-local dispatcher.
The copy is the registry source byte for byte, plus ONE catch-all first arm in each of
`span!` (-> Span::none()), `event!` (-> ()), `enabled!` (-> false).  Nothing in /repo changes.
Dropped by this: log/span side effects and the evaluation of log-argument expressions.
"""
import glob, os, re, shutil, sys

def main(dst):
    srcs = sorted(glob.glob(os.path.expanduser("~/.cargo/registry/src/*/tracing-0.1.44")))
    if not srcs:
        sys.exit("tracing-0.1.44 not found in the offline cargo registry")
    if os.path.isdir(dst):
        shutil.rmtree(dst)
    shutil.copytree(srcs[0], dst)
    p = os.path.join(dst, "src", "macros.rs")
    s = open(p).read()
    arms = {
        "span": "    ($($__verif_noop:tt)*) => { $crate::Span::none() };\n",
        "event": "    ($($__verif_noop:tt)*) => { ({}) };\n",
        "enabled": "    ($($__verif_noop:tt)*) => { (false) };\n",
    }
    for name, arm in arms.items():
        pat = re.compile(r"(macro_rules!\s+%s\s*\{\n)" % name)
        if len(pat.findall(s)) != 1:
            sys.exit("cannot locate macro_rules! %s exactly once" % name)
        s = pat.sub(lambda m: m.group(1) + arm, s, count=1)
    open(p, "w").write(s)
    # registry copies carry a checksum file only used for registry sources; path deps ignore it
    for f in (".cargo-checksum.json", ".cargo_vcs_info.json", "Cargo.toml.orig"):
        fp = os.path.join(dst, f)
        if os.path.exists(fp):
            os.remove(fp)
    print("tracing shim at", dst)

if __name__ == "__main__":
    main(sys.argv[1])
