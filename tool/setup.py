#!/usr/bin/env python3
import os, sys, time
sys.path.insert(0, os.path.dirname(os.path.abspath(__file__)))
import vlib

def main():
    t0 = time.time()
    os.makedirs(vlib.TARGET, exist_ok=True)
    vlib.ensure_shim()
    units = []
    for u in vlib.all_units():
        try:
            vlib.check_anchors(u)
            units.append(u)
        except vlib.Inconclusive as e:
            print("setup: skipping unit", u.id, e)
    with vlib.OverlayLock():
        ov = vlib.prepare_overlay(units)
        done = set()
        for u in units:
            if not u.package or not u.harnesses:
                continue
            key = (u.package, tuple(u.cargo_args))
            if key in done:
                continue
            done.add(key)
            try:
                dt = vlib.build_package(ov, u)
                print("setup: pre-built %s under Kani in %.0fs" % (u.package, dt), flush=True)
            except vlib.Inconclusive as e:
                print("setup: WARNING could not pre-build %s: %s" % (u.package, str(e)[-1500:]), flush=True)
    print("setup done in %.0fs" % (time.time() - t0))

if __name__ == "__main__":
    main()
