#!/usr/bin/env bash
# development aid: compile one package of the (already prepared) overlay under Kani and print only the errors
pkg=$1; shift
cd /var/tmp/fuel-core-verif/ov-*/ || exit 2
CARGO_NET_OFFLINE=true RUSTFLAGS=--cap-lints=warn CARGO_TARGET_DIR=/verif/.cache/kani-target \
  cargo kani -p $pkg --only-codegen -Z function-contracts -Z stubbing "$@" > /tmp/kbuild.out 2>&1
echo "exit=$?"
awk '/^error/{p=1} /^warning/{p=0} p' /tmp/kbuild.out | head -${KB_LINES:-80} | cut -c1-260
