#!/usr/bin/env python3
"""Generate /verif/MANIFEST.json from manifest_src.toml (one [C..] table per property)."""
import json, os, sys, tomllib
V = os.path.dirname(os.path.dirname(os.path.abspath(__file__)))
src = tomllib.load(open(os.path.join(V, "manifest_src.toml"), "rb"))
props = [json.loads(l)["id"] for l in open(os.path.join(V, "properties.jsonl"))]
checks, na = [], []
for pid in props:
    e = src.get(pid)
    if e is None:
        sys.exit("no entry for " + pid)
    if "not_applicable" in e:
        na.append({"property_id": pid, "reason": e["not_applicable"]})
        continue
    checks.append({
        "property_id": pid,
        "quick_cmd": "./bin/check %s --tier quick" % pid,
        "thorough_cmd": "./bin/check %s --tier thorough" % pid,
        "evidence_file": "/verif/evidence/%s.json" % pid,
        "replay_cmd_template": "./bin/check %s --replay {path}" % pid,
        "engine": e.get("engine", "kani-contracts"),
        "level_claimed": {"category": e["category"], "text": e["text"], "design_ref": e.get("design_ref", "DESIGN.md section 4, " + pid)},
        "level_note": e["note"],
        "technique": e["technique"],
    })
m = {
    "version": 1,
    "setup_cmd": "./bin/setup",
    "hooks": {
        "guard": "kani",
        "enable": "no source hooks in /repo: every check copies /repo's working tree to an overlay outside /repo, splices contracts and harness modules (#[cfg(kani)]) into the real source files there, and builds that with `cargo kani` (which sets --cfg kani); Verus units extract the function text from /repo on every run",
        "baseline_off_cmd": "cd /repo && cargo nextest run --workspace --no-fail-fast --tool-config-file pb:/w/lib/nextest.toml --profile pb --test-threads 8 --offline",
        "source_commits": src.get("hooks", {}).get("source_commits", []),
        "add_only": True,
    },
    "engines": [
        {"name": "kani-contracts", "path": "/verif/bin/check", "kind_free_text": "contract obligations on real functions: overlay of /repo + spliced Kani harnesses/contracts, CBMC; Verus lemmas and Verus direct verification of extracted function text",
         "serves_properties": [c["property_id"] for c in checks]},
    ],
    "checks": checks,
    "notes": src.get("notes", ""),
    "not_applicable": na,
}
json.dump(m, open(os.path.join(V, "MANIFEST.json"), "w"), indent=1)
print("MANIFEST.json: %d checks, %d not_applicable" % (len(checks), len(na)))
