#!/usr/bin/env bash
# development aid: re-create the overlay (all units, or the given ones) without running anything
cd /verif && python3 - "$@" <<'PY'
import sys
sys.path.insert(0,'/verif/tool')
import vlib
units = [vlib.Unit(u) for u in sys.argv[1:]] or vlib.all_units()
with vlib.OverlayLock():
    print(vlib.prepare_overlay(units))
    for u in units:
        vlib.prepare_xcrates(u)
PY
