#!/usr/bin/env bash
# dev helper: build the verus file for a unit and show verus' plain output
cd /verif && python3 - "$@" <<'PY'
import sys, subprocess
sys.path.insert(0,'/verif/tool')
import vlib, verus_run
u = vlib.Unit(sys.argv[1])
for v in u.verus:
    if len(sys.argv) > 2 and v.get('name') != sys.argv[2]: continue
    text, ex = verus_run.build_file(u, v)
    path = '/tmp/vdev-%s-%s.rs' % (u.id, v.get('name','x'))
    open(path,'w').write(text)
    p = subprocess.run(['verus', path, '--crate-type=lib', '--triggers-mode', 'silent'] + v.get('args', []), capture_output=True, text=True)
    print(p.stderr[-6000:], p.stdout[-1500:])
PY
