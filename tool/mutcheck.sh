#!/usr/bin/env bash
# usage: tool/mutcheck.sh <patch.diff> <Cxx> [tier]   - run a check against a scratch worktree with the patch applied
set -u
# one run at a time: the scratch worktree /tmp/mt is shared
exec 7>/tmp/mutcheck.lock; flock 7
PATCH=$1; PROP=$2; TIER=${3:-quick}
MT=/tmp/mt
if [ ! -d $MT ]; then git -C /repo worktree add -q --detach $MT HEAD; fi
git -C $MT checkout -q --detach $(git -C /repo rev-parse HEAD) 2>/dev/null
git -C $MT checkout -- . ; git -C $MT clean -fdq
git -C $MT apply "$PATCH" || { echo "PATCH DOES NOT APPLY"; exit 3; }
cd /verif
VERIF_REPO=$MT VERIF_NO_EVIDENCE=1 VERIF_KANI_TARGET=/var/tmp/fuel-core-verif/mt-target ./bin/check $PROP --tier $TIER 2>&1 | grep -v "SUCCESS\|SATISFIED\|   OK  " | tail -${LINES_OUT:-12}
rc=${PIPESTATUS[0]}
git -C $MT checkout -- . ; git -C $MT clean -fdq
echo "mutcheck $PROP rc=$rc patch=$PATCH"
