#!/usr/bin/env bash
# run every claimed check's quick command once, in MANIFEST order; prints one line per property
cd /verif
for p in $(python3 -c "import json;print(' '.join(c['property_id'] for c in json.load(open('MANIFEST.json'))['checks']))"); do
  s=$(date +%s)
  ./bin/check $p --tier ${1:-quick} > /tmp/runall-${1:-quick}-$p.log 2>&1; rc=$?
  echo "$p rc=$rc $(( $(date +%s) - s ))s $(tail -1 /tmp/runall-${1:-quick}-$p.log | cut -c1-120)"
done
