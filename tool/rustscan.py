#!/usr/bin/env python3
"""Token-aware Rust item locator used by the splicer and by the Verus extractor.

It does not parse Rust; it tokenises (comments, nested block comments, strings, raw strings,
byte strings, chars vs lifetimes) and tracks brace nesting with the *header* text that opened
each brace, which is enough to find `fn name` inside `impl Type`, `impl Trait for Type`,
`mod name` or at file level, and to return the byte span of the whole item (leading doc
comments and attributes included) and of its body.

Item path syntax accepted by locate():
    free_fn                      a fn at module level of the file (any `mod` nesting allowed)
    Type::method                 fn inside `impl<..> Type<..> {` (inherent impls only)
    <Type as Trait>::method      fn inside `impl<..> Trait<..> for Type<..> {`
    mod_name::free_fn            fn inside `mod mod_name {`
    struct Type / enum Type      the type definition item
"""
import re
import sys
from dataclasses import dataclass


@dataclass
class Tok:
    kind: str  # ident, punct, lit, lifetime, comment, doc
    text: str
    start: int
    end: int


_ident_re = re.compile(r"[A-Za-z_][A-Za-z0-9_]*")


def tokenize(src):
    toks = []
    i, n = 0, len(src)
    while i < n:
        c = src[i]
        if c.isspace():
            i += 1
            continue
        if src.startswith("//", i):
            j = src.find("\n", i)
            j = n if j < 0 else j
            text = src[i:j]
            kind = "doc" if (text.startswith("///") and not text.startswith("////")) or text.startswith("//!") else "comment"
            toks.append(Tok(kind, text, i, j))
            i = j
            continue
        if src.startswith("/*", i):
            depth, j = 1, i + 2
            while j < n and depth:
                if src.startswith("/*", j):
                    depth += 1
                    j += 2
                elif src.startswith("*/", j):
                    depth -= 1
                    j += 2
                else:
                    j += 1
            text = src[i:j]
            kind = "doc" if text.startswith("/**") and not text.startswith("/***") and len(text) > 4 else "comment"
            toks.append(Tok(kind, text, i, j))
            i = j
            continue
        # raw strings r"..", r#".."#, br#".."#
        m = re.match(r"(?:b|c)?r(#*)\"", src[i:i + 40])
        if m:
            hashes = m.group(1)
            close = '"' + hashes
            j = src.find(close, i + m.end())
            j = n if j < 0 else j + len(close)
            toks.append(Tok("lit", src[i:j], i, j))
            i = j
            continue
        if c == '"' or (c in "bc" and i + 1 < n and src[i + 1] == '"'):
            j = i + (2 if c != '"' else 1)
            while j < n and src[j] != '"':
                j += 2 if src[j] == "\\" else 1
            j = min(j + 1, n)
            toks.append(Tok("lit", src[i:j], i, j))
            i = j
            continue
        if c == "'" or (c == "b" and i + 1 < n and src[i + 1] == "'"):
            k = i + (1 if c == "b" else 0)
            # char literal or lifetime
            if k + 1 < n and src[k + 1] == "\\":
                j = k + 2
                while j < n and src[j] != "'":
                    j += 1
                j = min(j + 1, n)
                toks.append(Tok("lit", src[i:j], i, j))
                i = j
                continue
            if k + 2 < n and src[k + 2] == "'":
                toks.append(Tok("lit", src[i:k + 3], i, k + 3))
                i = k + 3
                continue
            m2 = _ident_re.match(src, k + 1)
            if m2 and c == "'":
                toks.append(Tok("lifetime", src[i:m2.end()], i, m2.end()))
                i = m2.end()
                continue
            # multi-byte char literal like 'é'
            j = src.find("'", k + 1)
            j = n if j < 0 else j + 1
            toks.append(Tok("lit", src[i:j], i, j))
            i = j
            continue
        m = _ident_re.match(src, i)
        if m:
            # raw identifiers r#name
            toks.append(Tok("ident", m.group(0), i, m.end()))
            i = m.end()
            continue
        if c.isdigit():
            m = re.match(r"[0-9][0-9A-Za-z_]*(?:\.[0-9][0-9A-Za-z_]*)?", src[i:])
            toks.append(Tok("lit", m.group(0), i, i + m.end()))
            i += m.end()
            continue
        toks.append(Tok("punct", c, i, i + 1))
        i += 1
    return toks


@dataclass
class Item:
    kind: str          # fn, struct, enum, impl, mod, trait
    name: str
    path: list         # enclosing scope labels, e.g. ["impl State"] or ["impl SendStatus for Sender"]
    start: int         # byte offset of first leading doc/attribute (or of the item keyword line)
    head_start: int    # byte offset of the first non-attribute token of the item (vis / keyword)
    body_start: int    # offset of '{' (or -1)
    end: int           # offset one past the closing '}' or ';'
    header: str        # text from head_start to body_start


def _scope_label(header_toks):
    """Summarise the tokens of a header (between the previous delimiter and '{')."""
    words = [t.text for t in header_toks if t.kind in ("ident", "punct", "lifetime")]
    idents = [t.text for t in header_toks if t.kind == "ident"]
    if "impl" in idents and "fn" not in idents:
        # strip generics after impl
        k = words.index("impl") + 1
        k = _skip_generics(words, k)
        rest = words[k:]
        # cut where clause
        if "where" in rest:
            rest = rest[:rest.index("where")]
        if "for" in rest:
            f = _top_level_index(rest, "for")
            trait = _last_path_ident(rest[:f])
            ty = _last_path_ident(rest[f + 1:])
            return "impl %s for %s" % (trait, ty)
        return "impl %s" % _last_path_ident(rest)
    for kw in ("mod", "trait", "struct", "enum", "union"):
        if kw in idents:
            k = idents.index(kw)
            if k + 1 < len(idents):
                return "%s %s" % (kw, idents[k + 1])
    if "fn" in idents:
        k = idents.index("fn")
        if k + 1 < len(idents):
            return "fn %s" % idents[k + 1]
    return "block"


def _skip_generics(words, k):
    if k < len(words) and words[k] == "<":
        depth = 0
        while k < len(words):
            if words[k] == "<":
                depth += 1
            elif words[k] == ">":
                if k > 0 and words[k - 1] == "-":
                    pass
                else:
                    depth -= 1
                    if depth == 0:
                        return k + 1
            k += 1
    return k


def _top_level_index(words, target):
    depth = 0
    for i, w in enumerate(words):
        if w == "<":
            depth += 1
        elif w == ">" and not (i > 0 and words[i - 1] == "-"):
            depth -= 1
        elif w == target and depth == 0:
            return i
    return words.index(target)


def _last_path_ident(words):
    """Type name of `a::b::Type<..>` = last identifier before the first top-level '<'."""
    out = None
    depth = 0
    for i, w in enumerate(words):
        if w == "<":
            depth += 1
        elif w == ">" and not (i > 0 and words[i - 1] == "-"):
            depth -= 1
        elif depth == 0 and _ident_re.fullmatch(w) and w not in ("dyn", "mut", "const", "unsafe", "crate", "super", "self"):
            out = w
    return out or "?"


def scan(src):
    """Return the list of Items in the file."""
    toks = [t for t in tokenize(src)]
    items = []
    stack = []  # (label, open_tok_index, item_index or None)
    seg_start = 0  # index in toks of first token of current header segment
    i = 0
    n = len(toks)
    paren = 0
    while i < n:
        t = toks[i]
        if t.kind == "punct" and t.text in "([":
            paren += 1
        elif t.kind == "punct" and t.text in ")]":
            paren -= 1
        elif t.kind == "punct" and t.text == "{" and paren >= 0:
            header = [x for x in toks[seg_start:i] if x.kind not in ("comment",)]
            # split leading docs/attributes from the head
            h = 0
            lead_start = None
            while h < len(header):
                if header[h].kind == "doc":
                    lead_start = header[h].start if lead_start is None else lead_start
                    h += 1
                elif header[h].kind == "punct" and header[h].text == "#":
                    lead_start = header[h].start if lead_start is None else lead_start
                    # skip attribute #[ ... ] or #![...]
                    h += 1
                    if h < len(header) and header[h].text == "!":
                        h += 1
                    depth = 0
                    while h < len(header):
                        if header[h].text == "[":
                            depth += 1
                        elif header[h].text == "]":
                            depth -= 1
                            if depth == 0:
                                h += 1
                                break
                        h += 1
                else:
                    break
            head = header[h:]
            label = _scope_label(head) if head else "block"
            item_idx = None
            kind = label.split(" ")[0]
            if head and kind in ("fn", "impl", "mod", "trait", "struct", "enum", "union") and paren == 0:
                name = label.split(" ", 1)[1] if " " in label else ""
                items.append(Item(kind, name, [s[0] for s in stack], lead_start if lead_start is not None else head[0].start,
                                  head[0].start, t.start, -1, src[head[0].start:t.start]))
                item_idx = len(items) - 1
            stack.append((label, i, item_idx, paren))
            paren = 0
            seg_start = i + 1
        elif t.kind == "punct" and t.text == "}":
            if stack:
                label, _, item_idx, saved_paren = stack.pop()
                paren = saved_paren
                if item_idx is not None:
                    items[item_idx].end = t.end
            seg_start = i + 1
        elif t.kind == "punct" and t.text == ";" and paren == 0:
            # body-less items: `struct X(..);`, trait method declarations — record structs
            header = [x for x in toks[seg_start:i] if x.kind != "comment"]
            idents = [x.text for x in header if x.kind == "ident"]
            for kw in ("struct",):
                if kw in idents and "fn" not in idents:
                    k = idents.index(kw)
                    if k + 1 < len(idents):
                        first = header[0]
                        items.append(Item(kw, idents[k + 1], [s[0] for s in stack], first.start, first.start, -1, t.end,
                                          src[first.start:t.end]))
            seg_start = i + 1
        i += 1
    return items


class AnchorError(Exception):
    pass


def locate(src, path, items=None):
    """Find exactly one item for `path`; raise AnchorError otherwise."""
    items = items if items is not None else scan(src)
    path = path.strip()
    ordinal = None
    om = re.fullmatch(r"(.*)#(\d+)", path)
    if om:   # "<path>#k": the k-th match in source order (1-based), for items that legitimately occur several times
        path, ordinal = om.group(1).strip(), int(om.group(2))
    m = re.fullmatch(r"<\s*([A-Za-z_][A-Za-z0-9_]*)\s+as\s+([A-Za-z_][A-Za-z0-9_]*)\s*>::([A-Za-z_][A-Za-z0-9_]*)", path)
    cands = []
    if m:
        ty, trait, name = m.groups()
        want = "impl %s for %s" % (trait, ty)
        cands = [it for it in items if it.kind == "fn" and it.name == name and it.path and it.path[-1] == want]
    elif path.startswith(("struct ", "enum ", "trait ")):
        kind, name = path.split()
        cands = [it for it in items if it.kind == kind and it.name == name]
    elif path.startswith("impl "):
        # whole impl block: "impl Type" or "impl Trait for Type"
        cands = [it for it in items if it.kind == "impl" and it.name == path[5:].strip()]
    elif "::" in path:
        scope, name = path.rsplit("::", 1)
        for it in items:
            if it.kind != "fn" or it.name != name or not it.path:
                continue
            last = it.path[-1]
            if last == "impl %s" % scope or last == "mod %s" % scope or last == "trait %s" % scope:
                cands.append(it)
    else:
        cands = [it for it in items if it.kind == "fn" and it.name == path
                 and all(p.startswith("mod ") for p in it.path)]
    if ordinal is not None:
        if not (1 <= ordinal <= len(cands)):
            raise AnchorError("item %r#%d: only %d matches" % (path, ordinal, len(cands)))
        cands = [sorted(cands, key=lambda c: c.start)[ordinal - 1]]
    if len(cands) != 1:
        raise AnchorError("item %r found %d times" % (path, len(cands)))
    it = cands[0]
    if it.end < 0:
        raise AnchorError("item %r has no closing brace" % path)
    return it


def norm_ws(s):
    return re.sub(r"\s+", " ", s).strip()


if __name__ == "__main__":
    src = open(sys.argv[1]).read()
    if len(sys.argv) > 2:
        it = locate(src, sys.argv[2])
        print(it.kind, it.name, it.path, norm_ws(it.header))
        print(src[it.start:it.end])
    else:
        for it in scan(src):
            print(it.kind, it.name, it.path, "|", norm_ws(it.header)[:100])
