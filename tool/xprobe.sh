#!/usr/bin/env bash
# development aid: run one scratch-crate harness for N seconds and summarise where CBMC spends its unwinding
# usage: tool/xprobe.sh <unit-xcname e.g. db-height-commit> <harness> <secs> [extra cargo-kani args...]
x=$1; h=$2; secs=$3; shift 3
cd /var/tmp/fuel-core-verif/xk-*/$x || exit 2
CARGO_NET_OFFLINE=true CARGO_TARGET_DIR=/verif/.cache/kani-target timeout $secs \
  cargo kani --harness $h --exact -Z function-contracts -Z stubbing "$@" > /tmp/xprobe.out 2>&1
echo "exit=$?"
grep -c "^Unwinding" /tmp/xprobe.out
grep "^Unwinding" /tmp/xprobe.out | sed -E 's/iteration [0-9]+//' | awk '{print $3, $(NF-3), $(NF-2)}' | sort | uniq -c | sort -rn | head -12 | cut -c1-260
grep -v "^Unwinding\|^aborting\|^Not unwinding" /tmp/xprobe.out | tail -${XP_LINES:-12} | cut -c1-300
