#!/usr/bin/env bash
# usage: tool/seedflow.sh <mut-dir> <crate> <Cxx> [extra cargo test args]   - confirm a sub-agent's mutation, then run the check against it
# writes <mut-dir>/flow.log ; prints one summary line
D=$1; CRATE=$2; PROP=$3; shift 3
(
  flock 9
  /verif/tool/confirm_mut.sh $D $CRATE "$@" > $D/flow.log 2>&1
) 9>/tmp/seedflow-confirm.lock
(
  flock 8
  LINES_OUT=25 /verif/tool/mutcheck.sh $D/patch.diff $PROP >> $D/flow.log 2>&1
) 8>/tmp/seedflow-mutcheck.lock
echo "SEEDFLOW $D: $(cat $D/confirm.json 2>/dev/null) :: $(grep -E '^mutcheck|^VIOLATION|^INCONCLUSIVE' $D/flow.log | cut -c1-200 | tr '\n' '|')"
