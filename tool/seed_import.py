#!/usr/bin/env python3
"""tool/seed_import.py <mut-dir> <seed-id> <detected_by|MISSED> [note]  - copy a confirmed mutation into /verif/seeded/<seed-id>/"""
import json, os, shutil, sys
src, sid, det = sys.argv[1], sys.argv[2], sys.argv[3]
note = sys.argv[4] if len(sys.argv) > 4 else ""
dst = os.path.join("/verif/seeded", sid)
os.makedirs(dst, exist_ok=True)
for f in ("patch.diff", "demo.diff"):
    shutil.copy(os.path.join(src, f), os.path.join(dst, f))
meta = json.load(open(os.path.join(src, "meta.json")))
conf = json.load(open(os.path.join(src, "confirm.json"))) if os.path.exists(os.path.join(src, "confirm.json")) else {}
out = {
    "property": meta.get("property"),
    "what_breaks": meta.get("what_breaks"),
    "needs_to_manifest": meta.get("needs_to_manifest"),
    "crate": meta.get("crate"),
    "demo_test": meta.get("demo_test"),
    "source": "independent sub-agent given only the property text and a scratch worktree",
    "confirmed_by_me": {
        "how": "tool/confirm_mut.sh in a scratch worktree of /repo HEAD: cargo test -p <crate> with patch (existing tests), demo test with patch (must fail), demo test without patch (must pass)",
        **conf,
    },
    "agent_commands_run": meta.get("commands_run"),
    "agent_note": meta.get("existing_tests_note", ""),
    "detection": {"result": "caught" if det != "MISSED" else "missed", "by": det if det != "MISSED" else None,
                  "how": "tool/mutcheck.sh <patch> <property> (check run against a scratch worktree with the patch applied)", "note": note},
}
json.dump(out, open(os.path.join(dst, "meta.json"), "w"), indent=1)
print("seeded", sid, out["detection"]["result"])
