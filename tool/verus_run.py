#!/usr/bin/env python3
"""Builds one single-file Verus input per [[verus]] entry of a unit and runs `verus`.

The template (contracts/<unit>/<file>) is Verus source with two kinds of directives:

  //@ include-pred <file>          paste <file> with `fn` -> `pub open spec fn` (the shared predicate text)
  //@ extract <repo-rel-path> <ItemPath> [rename=<new_fn_name>] [self=<Type>]
  //@   requires a,
  //@   ensures b,
  //@ end

`extract` pastes the *current* text of the item from the repository working tree:
  - leading doc comments and attributes are dropped (named in `dropped`),
  - `-> T` in the header becomes `-> (r: T)` (Verus needs a result binder); with strip_pub=1 a leading `pub` is dropped,
  - the spec lines are inserted between header and body,
  - the body is pasted byte for byte.
Everything else in the generated file is the template. The generated file is kept under
$WORK/verus/<unit>-<name>.rs and named in the evidence.
"""
import json
import os
import re
import subprocess
import sys
import time

sys.path.insert(0, os.path.dirname(os.path.abspath(__file__)))
import rustscan  # noqa: E402
import vlib  # noqa: E402

VIOLATION_PATTERNS = [
    "postcondition not satisfied", "precondition not satisfied", "assertion failed", "possible arithmetic underflow/overflow",
    "invariant not satisfied", "possible division by zero", "decreases not satisfied", "possible bit shift underflow/overflow",
    "index out of bounds", "recommendation not met",
]


def pred_to_spec(txt):
    out = re.sub(r"(?m)^(\s*)(pub\s+)?fn\s+", r"\1pub open spec fn ", txt)
    out = re.sub(r"(?m)^\s*#\[derive\([^)]*\)\]\s*\n", "", out)
    return out


def extract_item(repo_rel, item_path, spec_lines, opts, unit, verus=True):
    p = os.path.join(vlib.REPO, repo_rel)
    try:
        src = open(p).read()
    except FileNotFoundError:
        raise vlib.Inconclusive("LOST-ANCHOR unit=%s file=%s" % (unit.id, repo_rel))
    if item_path.startswith("const "):
        # `[pub] const NAME: T = <expr>;` pasted verbatim (visibility kept)
        name = item_path.split()[1]
        ms = list(re.finditer(r"(?m)^[ \t]*((?:pub(?:\([a-z:]+\))?[ \t]+)?const[ \t]+%s[ \t]*:[^;]*;)" % re.escape(name), src))
        if len(ms) != 1:
            raise vlib.Inconclusive("LOST-ANCHOR unit=%s item=%s (found %d times)" % (unit.id, item_path, len(ms)))
        class _C:  # minimal item record
            pass
        it = _C()
        it.name = name
        return ms[0].group(1), "", it
    try:
        it = rustscan.locate(src, item_path)
    except rustscan.AnchorError as e:
        raise vlib.Inconclusive("LOST-ANCHOR unit=%s item=%s (%s)" % (unit.id, item_path, e))
    header = src[(it.start if opts.get("keep_attrs") else it.head_start):it.body_start].rstrip()
    body = src[it.body_start:it.end]
    dropped = "" if opts.get("keep_attrs") else src[it.start:it.head_start].strip()
    # result binder (Verus only)
    m = re.search(r"->\s*(.+)$", header, re.S)
    if verus and m and not m.group(1).lstrip().startswith("("):
        ret = m.group(1).strip()
        where = ""
        wm = re.search(r"\bwhere\b", ret)
        if wm:
            where = " " + ret[wm.start():]
            ret = ret[:wm.start()].strip()
        header = header[:m.start()] + "-> (r: %s)%s" % (ret, where)
    if opts.get("strip_pub"):
        # visibility only: lets an ensures clause mention private fields of a type defined in the same file
        header = re.sub(r"^pub(\([^)]*\))?\s+", "", header)
    if opts.get("rename"):
        header = re.sub(r"\bfn\s+%s\b" % re.escape(it.name), "fn " + opts["rename"], header, count=1)
    spec = "".join("    " + l + "\n" for l in spec_lines)
    text = header + "\n" + spec + body
    return text, dropped, it


def build_file(unit, vspec, verus=True):
    tpl = open(os.path.join(unit.dir, vspec["file"])).read()
    lines = tpl.split("\n")
    out = []
    extracted = []
    i = 0
    while i < len(lines):
        l = lines[i]
        m = re.match(r"\s*//@ include-pred (\S+)", l)
        if m:
            out.append(pred_to_spec(open(os.path.join(unit.dir, m.group(1))).read()))
            i += 1
            continue
        m = re.match(r"\s*//@ include (\S+)\s*$", l)
        if m and not verus:
            out.append(open(os.path.join(unit.dir, m.group(1))).read())
            i += 1
            continue
        m = re.match(r"\s*//@ extract (\S+) (<[^>]+>::\S+|(?:struct |enum |trait |const |impl (?:\S+ for )?)?\S+)(.*)", l)
        if m:
            opts = dict(re.findall(r"(\w+)=(\S+)", m.group(3)))
            spec_lines = []
            i += 1
            while i < len(lines) and not re.match(r"\s*//@ end", lines[i]):
                sm = re.match(r"\s*//@ ?(.*)", lines[i])
                if not sm:
                    raise vlib.Inconclusive("bad extract block in %s" % vspec["file"])
                spec_lines.append(sm.group(1))
                i += 1
            i += 1
            text, dropped, it = extract_item(m.group(1), m.group(2), spec_lines, opts, unit, verus)
            extracted.append(dict(item=m.group(2), file=m.group(1), dropped=dropped, fn=opts.get("rename", it.name)))
            out.append("// ---- extracted verbatim from %s :: %s (header binder + spec lines added) ----" % (m.group(1), m.group(2)))
            out.append(text)
            out.append("// ---- end extract ----")
            continue
        out.append(l)
        i += 1
    return "\n".join(out), extracted


def fn_spans(text):
    """[(name, start_line, end_line, is_proof_or_exec)] for fns with bodies in the generated file."""
    spans = []
    for it in rustscan.scan(text):
        if it.kind != "fn" or it.name == "main":
            continue
        hdr = rustscan.norm_ws(it.header)
        if re.search(r"\bspec\s+fn\b", hdr) and "proof" not in hdr:
            continue
        s = text.count("\n", 0, it.start) + 1
        e = text.count("\n", 0, it.end) + 1
        spans.append((it.name, s, e))
    return spans


def run_verus_unit(unit, vspec):
    name = vspec.get("name", vspec["file"])
    prop = vspec.get("prop", unit.properties[0])
    res = dict(name=name, obligations=[], inconclusive=[], output="", file="", solver_s=0.0, extracted=[])
    text, extracted = build_file(unit, vspec)
    res["extracted"] = extracted
    d = os.path.join(vlib.WORK, "verus")
    os.makedirs(d, exist_ok=True)
    path = os.path.join(d, "%s-%s.rs" % (unit.id, re.sub(r"\W", "_", name)))
    open(path, "w").write(text)
    res["file"] = path
    cmd = ["verus", path, "--output-json", "--time", "--crate-type=lib"] + vspec.get("args", [])
    t0 = time.time()
    try:
        p = subprocess.run(cmd, stdout=subprocess.PIPE, stderr=subprocess.PIPE, text=True, timeout=int(vspec.get("timeout", 600)),
                           cwd=d)
    except subprocess.TimeoutExpired:
        res["inconclusive"].append("verus timeout")
        return res
    wall = time.time() - t0
    res["output"] = p.stderr + "\n" + p.stdout
    try:
        js = json.loads(p.stdout[p.stdout.index("{"):])
    except Exception:
        res["inconclusive"].append("verus produced no JSON: " + (p.stderr + p.stdout)[-2000:])
        return res
    vr = js.get("verification-results", {})
    tm = js.get("times-ms", {})
    res["solver_s"] = round((tm.get("smt", {}).get("total", 0) if isinstance(tm.get("smt"), dict) else 0) / 1000.0, 3) or round(wall, 2)
    spans = fn_spans(text)
    # map error messages to functions
    bad = {}
    other_errors = []
    for m in re.finditer(r"^error(?:\[\w+\])?: ([^\n]*)\n(?:[^\n]*\n)*?\s*--> [^\n:]+:(\d+):\d+", p.stderr, re.M):
        msg, line = m.group(1), int(m.group(2))
        fn = next((n for (n, s, e) in spans if s <= line <= e), None)
        if fn and any(v in msg for v in VIOLATION_PATTERNS):
            bad.setdefault(fn, []).append("%s (generated line %d)" % (msg, line))
        elif "aborting due to" in msg:
            continue
        else:
            other_errors.append("%s (line %d)" % (msg, line))
    if vr.get("encountered-vir-error") or (not vr and p.returncode != 0) or other_errors:
        res["inconclusive"].append("verus could not process the file: " + "; ".join(other_errors)[:1500] + p.stderr[-1500:])
    if "rlimit" in p.stderr.lower() or "resource limit" in p.stderr.lower():
        res["inconclusive"].append("verus resource limit exceeded")
    n_err = vr.get("errors", 0)
    if n_err and not bad and not res["inconclusive"]:
        res["inconclusive"].append("verus reports %d errors that could not be mapped to a function: %s" % (n_err, p.stderr[-1500:]))
    ext_fns = {e["fn"] for e in extracted}
    for (n, s, e) in spans:
        st = "FAILURE" if n in bad else ("SUCCESS" if vr.get("success") or (vr and not res["inconclusive"]) else "UNDETERMINED")
        res["obligations"].append(dict(
            id="%s.%s.verus.%s" % (prop, unit.id, n), unit=unit.id, kind="verus", status=st, backend="verus/z3",
            solver_s=res["solver_s"], real_code=(n in ext_fns), detail="; ".join(bad.get(n, []))))
    if vr and vr.get("verified", 0) == 0 and not n_err:
        res["inconclusive"].append("verus verified 0 functions (vacuous)")
    return res


if __name__ == "__main__":
    u = vlib.Unit(sys.argv[1])
    for v in u.verus:
        r = run_verus_unit(u, v)
        print(json.dumps({k: r[k] for k in r if k != "output"}, indent=1))
        print(r["output"][-3000:])
