#!/usr/bin/env python3
"""Core of the contract-verification runner for fuel-core (see /verif/DESIGN.md section 3).

overlay  : byte-for-byte copy of the repository working tree + environment corrections +
           contracts/harnesses spliced into the real source files (nothing in /repo changes)
kani     : one `cargo kani --harness H` process per harness, regular output parsed per check
verus    : one single-file `verus` run per unit on mechanically extracted function text
verdict  : 0 = all locked obligations discharged, 1 = VIOLATION (new failure of a locked
           obligation), 2 = INCONCLUSIVE (never prints VIOLATION)
"""
import concurrent.futures as cf
import fcntl
import hashlib
import json
import os
import re
import shutil
import subprocess
import sys
import time
import tomllib

sys.path.insert(0, os.path.dirname(os.path.abspath(__file__)))
import rustscan  # noqa: E402

VERIF = os.path.dirname(os.path.dirname(os.path.abspath(__file__)))
REPO = os.environ.get("VERIF_REPO", "/repo")
WORK = os.environ.get("VERIF_WORK", "/var/tmp/fuel-core-verif")
TARGET = os.environ.get("VERIF_KANI_TARGET", os.path.join(VERIF, ".cache", "kani-target"))
SHIM = os.path.join(WORK, "shims", "tracing")
ANYHOW_SHIM = os.path.join(VERIF, "shims", "anyhow")
NPROC = int(os.environ.get("VERIF_JOBS", str(os.cpu_count() or 8)))
MEM_LIMIT_KB = int(os.environ.get("VERIF_MEM_GB", "20")) * 1024 * 1024


class Inconclusive(Exception):
    pass


def log(*a):
    print(*a, file=sys.stderr, flush=True)


def sh(cmd, cwd=None, env=None, timeout=None, check=False):
    e = dict(os.environ)
    e.update(env or {})
    p = subprocess.run(cmd, cwd=cwd, env=e, stdout=subprocess.PIPE, stderr=subprocess.STDOUT,
                       text=True, timeout=timeout, errors="replace")
    if check and p.returncode != 0:
        raise Inconclusive("command failed (%d): %s\n%s" % (p.returncode, " ".join(cmd), p.stdout[-4000:]))
    return p


# --------------------------------------------------------------------------------------------
# units
# --------------------------------------------------------------------------------------------

class Harness:
    def __init__(self, unit, name, attrs, body, sp=None):
        self.unit = unit
        self.name = name
        self.sp = sp or {}
        self.file = self.sp.get("file", "")
        self.module = self.sp.get("module", "__verif_" + unit.id.replace("-", "_"))
        self.attrs = attrs
        self.kind = attrs.get("kind", "proof")          # proof | bounded | canary
        self.tier = attrs.get("tier", "quick")          # quick | thorough
        self.prop = attrs.get("prop", unit.properties[0])
        self.solver = attrs.get("solver")
        self.timeout = int(attrs.get("timeout", "600"))
        if os.environ.get("VERIF_TIMEOUT_CAP"):   # development aid only
            self.timeout = min(self.timeout, int(os.environ["VERIF_TIMEOUT_CAP"]))
        self.bound = attrs.get("bound", "")
        self.expect = attrs.get("expect")              # canary: tag expected to FAIL
        self.extra = attrs.get("extra", "").split() if attrs.get("extra") else []
        self.tags = sorted(set(re.findall(r'"\[(C\d+\.[^\]"]+)\]"', body)))
        self.xcrate = None

    @property
    def safety_tag(self):
        return "%s.%s.%s.no-panic" % (self.prop, self.unit.id, self.name)


class Unit:
    def __init__(self, uid):
        self.id = uid
        self.dir = os.path.join(VERIF, "contracts", uid)
        with open(os.path.join(self.dir, "unit.toml"), "rb") as f:
            self.cfg = tomllib.load(f)
        self.properties = self.cfg["properties"]
        self.package = self.cfg.get("package")
        self.cargo_args = self.cfg.get("cargo_args", [])
        self.playback_cargo_args = self.cfg.get("playback_cargo_args", [])
        self.splices = self.cfg.get("splice", [])
        self.anchors = self.cfg.get("anchor", [])
        self.cargo_deps = self.cfg.get("cargo_dep", [])
        self.verus = self.cfg.get("verus", [])
        self.trusted = self.cfg.get("trusted_base", [])
        self.functions = self.cfg.get("functions_under_contract", [a["item"] for a in self.anchors])
        self.xcrates = self.cfg.get("extract_crate", [])
        self.harnesses = []
        for xc in self.xcrates:
            txt = open(os.path.join(self.dir, xc["template"])).read()
            hs = parse_harnesses(self, txt, {"file": "src/lib.rs", "module": ""})
            for h in hs:
                h.xcrate = xc
            self.harnesses += hs
        for sp in self.splices:
            if sp.get("harness"):
                txt = open(os.path.join(self.dir, sp["harness"])).read()
                self.harnesses += parse_harnesses(self, txt, sp)

    def harness(self, name):
        for h in self.harnesses:
            if h.name == name:
                return h
        raise KeyError(name)


_HARN_RE = re.compile(r"//@ harness([^\n]*)\n((?:[ \t]*#\[[^\n]*\n)+)[ \t]*(?:pub )?(?:async )?fn\s+([A-Za-z0-9_]+)")


def module_path(rel):
    """crates/x/src/a/b.rs -> a::b ; lib.rs/main.rs/mod.rs handled."""
    tail = rel.rsplit("/src/", 1)[1]
    parts = tail[:-3].split("/")
    if parts[-1] in ("lib", "main", "mod"):
        parts = parts[:-1]
    return "::".join(parts)


def parse_harnesses(unit, txt, sp=None):
    out = []
    ms = list(_HARN_RE.finditer(txt))
    items = rustscan.scan(txt)
    for i, m in enumerate(ms):
        attrs = {}
        for kv in re.findall(r'(\w+)=("[^"]*"|\S+)', m.group(1)):
            attrs[kv[0]] = kv[1].strip('"')
        end = ms[i + 1].start() if i + 1 < len(ms) else len(txt)
        fns = [it for it in items if it.kind == "fn" and it.name == m.group(3) and it.start >= m.start() and it.start < end]
        if fns:
            end = fns[0].end
        out.append(Harness(unit, m.group(3), attrs, txt[m.start():end], sp))
    return out


def all_units():
    d = os.path.join(VERIF, "contracts")
    return [Unit(u) for u in sorted(os.listdir(d)) if os.path.exists(os.path.join(d, u, "unit.toml"))]


def units_for_property(prop):
    return [u for u in all_units() if prop in u.properties]


# --------------------------------------------------------------------------------------------
# overlay
# --------------------------------------------------------------------------------------------

def overlay_dir():
    h = hashlib.sha1(os.path.abspath(REPO).encode()).hexdigest()[:8]
    return os.path.join(WORK, "ov-" + h)


class OverlayLock:
    def __enter__(self):
        os.makedirs(WORK, exist_ok=True)
        self.f = open(os.path.join(WORK, "lock"), "w")
        fcntl.flock(self.f, fcntl.LOCK_EX)
        return self

    def __exit__(self, *a):
        fcntl.flock(self.f, fcntl.LOCK_UN)
        self.f.close()


def write_if_changed(path, content):
    try:
        if open(path).read() == content:
            return False
    except (FileNotFoundError, UnicodeDecodeError):
        pass
    os.makedirs(os.path.dirname(path), exist_ok=True)
    with open(path, "w") as f:
        f.write(content)
    return True


def ensure_shim():
    if not os.path.exists(os.path.join(SHIM, "src", "macros.rs")):
        os.makedirs(os.path.dirname(SHIM), exist_ok=True)
        sh([sys.executable, os.path.join(VERIF, "tool", "mk_tracing_shim.py"), SHIM], check=True)


def splice_file(src, unit, sp):
    """Return the spliced text of one source file for one unit (contracts + harness module)."""
    out = src
    if sp.get("contracts"):
        ctext = open(os.path.join(unit.dir, sp["contracts"])).read()
        blocks = re.split(r"(?m)^//@ before (.+)$", ctext)
        # blocks = [preamble, path1, attrs1, path2, attrs2, ...]
        inserts = []
        items = rustscan.scan(src)
        for k in range(1, len(blocks), 2):
            path = blocks[k].strip()
            attrs = blocks[k + 1].strip("\n") + "\n"
            try:
                it = rustscan.locate(src, path, items)
            except rustscan.AnchorError as e:
                raise Inconclusive("LOST-ANCHOR unit=%s item=%s (%s)" % (unit.id, path, e))
            inserts.append((it.start, attrs))
        for pos, attrs in sorted(inserts, reverse=True):
            # keep indentation of the item
            line_start = out.rfind("\n", 0, pos) + 1
            indent = out[line_start:pos] if out[line_start:pos].strip() == "" else ""
            attrs_i = "".join(indent + l + "\n" if i else l + "\n" for i, l in enumerate(attrs.rstrip("\n").split("\n")))
            out = out[:pos] + attrs_i + indent + out[pos:]
    if sp.get("harness"):
        h = open(os.path.join(unit.dir, sp["harness"])).read()
        h = re.sub(r"(?m)^[ \t]*//@ include (\S+)[ \t]*$", lambda m: open(os.path.join(unit.dir, m.group(1))).read(), h)
        mod = sp.get("module", "__verif_" + unit.id.replace("-", "_"))
        out = out.rstrip("\n") + "\n\n#[cfg(kani)]\n#[allow(warnings)]\nmod %s {\n%s\n}\n" % (mod, h.rstrip("\n"))
    return out


def check_anchors(unit):
    """Every item the unit depends on must exist exactly once with the recorded header."""
    cache = {}
    for a in unit.anchors:
        p = os.path.join(REPO, a["file"])
        if p not in cache:
            try:
                s = open(p).read()
            except FileNotFoundError:
                raise Inconclusive("LOST-ANCHOR unit=%s file=%s missing" % (unit.id, a["file"]))
            cache[p] = (s, rustscan.scan(s))
        s, items = cache[p]
        try:
            it = rustscan.locate(s, a["item"], items)
        except rustscan.AnchorError as e:
            raise Inconclusive("LOST-ANCHOR unit=%s item=%s (%s)" % (unit.id, a["item"], e))
        if a.get("sig") and rustscan.norm_ws(a["sig"]) != rustscan.norm_ws(it.header):
            raise Inconclusive("LOST-ANCHOR unit=%s item=%s signature changed: %r" % (unit.id, a["item"], rustscan.norm_ws(it.header)))


def prepare_overlay(units):
    """Mirror REPO into the overlay and splice the given units. Caller holds OverlayLock."""
    ensure_shim()
    ov = overlay_dir()
    os.makedirs(ov, exist_ok=True)
    state_p = os.path.join(ov, ".verif-state.json")
    try:
        state = json.load(open(state_p))
    except Exception:
        state = {}
    spliced_now = {}
    for u in units:
        check_anchors(u)
        for sp in u.splices:
            spliced_now.setdefault(sp["file"], []).append((u, sp))
    managed = ["Cargo.toml", "Cargo.lock", ".cargo/config.toml", ".verif-state.json"]
    dep_manifests = sorted({d["manifest"] for u in units for d in u.cargo_deps})
    excl = managed + sorted(spliced_now) + dep_manifests
    excl_file = os.path.join(WORK, "rsync-excl-%d" % os.getpid())
    with open(excl_file, "w") as f:
        f.write("/target\n.git\n/benches/benches-outputs\n")
        for e in excl:
            f.write("/" + e + "\n")
    p = sh(["rsync", "-a", "--delete", "--exclude-from", excl_file, REPO.rstrip("/") + "/", ov + "/"])
    os.remove(excl_file)
    if p.returncode != 0:
        raise Inconclusive("rsync failed: " + p.stdout[-2000:])
    # managed: workspace manifest with the tracing patch
    cargo = open(os.path.join(REPO, "Cargo.toml")).read()
    if "[patch.crates-io]" in cargo:
        cargo = cargo.replace("[patch.crates-io]", "[patch.crates-io]\ntracing = { path = \"%s\" }\nanyhow = { path = \"%s\" }" % (SHIM, ANYHOW_SHIM), 1)
    else:
        cargo += "\n[patch.crates-io]\ntracing = { path = \"%s\" }\nanyhow = { path = \"%s\" }\n" % (SHIM, ANYHOW_SHIM)
    write_if_changed(os.path.join(ov, "Cargo.toml"), cargo)
    cfgp = os.path.join(REPO, ".cargo", "config.toml")
    cfg = open(cfgp).read() if os.path.exists(cfgp) else ""
    write_if_changed(os.path.join(ov, ".cargo", "config.toml"), cfg + "\n[net]\noffline = true\n")
    # per-crate manifests that need an extra kani-only dependency (for stub paths)
    for m in dep_manifests:
        txt = open(os.path.join(REPO, m)).read()
        lines = sorted({l for u in units for d in u.cargo_deps if d["manifest"] == m for l in d["lines"]})
        txt = txt.rstrip("\n") + "\n\n[target.'cfg(kani)'.dependencies]\n" + "\n".join(lines) + "\n"
        write_if_changed(os.path.join(ov, m), txt)
    # spliced sources
    for rel, lst in spliced_now.items():
        src = open(os.path.join(REPO, rel)).read()
        out = src
        for (u, sp) in lst:
            out = splice_file(out, u, sp)
        write_if_changed(os.path.join(ov, rel), out)
    # lock file: repo's lock + ethnum 1.5.3 + tracing path (recomputed only when inputs change)
    lock_src = open(os.path.join(REPO, "Cargo.lock")).read()
    key = hashlib.sha1((lock_src + cargo + "".join(dep_manifests) + json.dumps(
        sorted(l for u in units for d in u.cargo_deps for l in d["lines"]))).encode()).hexdigest()
    if state.get("lock_key") != key or not os.path.exists(os.path.join(ov, "Cargo.lock")):
        with open(os.path.join(ov, "Cargo.lock"), "w") as f:
            f.write(lock_src)
        sh(["cargo", "update", "-p", "ethnum", "--precise", "1.5.3"], cwd=ov,
           env={"CARGO_NET_OFFLINE": "true"}, check=True)
        state["lock_key"] = key
    json.dump(state, open(state_p, "w"))
    return ov


def xcrate_dir(unit, xc):
    # one scratch-crate tree per repository path (like the overlay), so that a check of a patched worktree
    # (tool/mutcheck.sh) can never interleave with a check of /repo itself
    h = hashlib.sha1(os.path.abspath(REPO).encode()).hexdigest()[:8]
    return os.path.join(WORK, "xk-" + h, unit.id + "-" + xc.get("name", "x"))


def prepare_xcrates(unit):
    """Scratch Kani crates whose src/lib.rs is the template with //@ extract blocks replaced by the CURRENT text
    of the named items of REPO (same mechanical extraction as the Verus builder)."""
    import verus_run
    for xc in unit.xcrates:
        d = xcrate_dir(unit, xc)
        os.makedirs(os.path.join(d, "src"), exist_ok=True)
        text, extracted = verus_run.build_file(unit, {"file": xc["template"]}, verus=False)
        write_if_changed(os.path.join(d, "src", "lib.rs"), text)
        name = "xk_" + re.sub(r"\W", "_", unit.id + "_" + xc.get("name", "x"))
        write_if_changed(os.path.join(d, "Cargo.toml"),
                         ("[package]\nname = \"%s\"\nversion = \"0.0.0\"\nedition = \"%s\"\n\n[lib]\npath = \"src/lib.rs\"\n\n[dependencies]\n" % (name, xc.get("edition", "2021"))) + "\n".join(xc.get("deps", [])) + "\n\n[workspace]\n\n[lints.rust]\nunexpected_cfgs = { level = \"allow\", check-cfg = ['cfg(kani)'] }\n")
        xc["_extracted"] = extracted


def kani_env():
    return {"CARGO_NET_OFFLINE": "true", "RUSTFLAGS": "--cap-lints=warn", "CARGO_TARGET_DIR": TARGET,
            "CARGO_TERM_COLOR": "never"}


# --------------------------------------------------------------------------------------------
# kani
# --------------------------------------------------------------------------------------------

_CHECK_RE = re.compile(
    r"Check (\d+): (\S+)\n\s*- Status: (\w+)\n\s*- Description: \"(.*)\"\n\s*- Location: ([^\n]*)")


class HarnessResult:
    def __init__(self, h):
        self.h = h
        self.status = "UNKNOWN"       # SUCCESSFUL | FAILED | ERROR | TIMEOUT
        self.tagged = {}              # tag -> status (worst)
        self.covers = {}              # tag -> status
        self.untagged_fail = []       # [(class, description, location)]
        self.inconclusive = []        # reasons
        self.unsupported = False
        self.n_checks = 0
        self.verif_s = 0.0
        self.wall_s = 0.0
        self.out = ""
        self.cmd = ""


_RANK = {"FAILURE": 3, "UNDETERMINED": 2, "SUCCESS": 1, "UNREACHABLE": 0}


def parse_kani_output(h, out, res):
    res.out = out
    m = re.search(r"VERIFICATION:- (\w+)", out)
    if not m:
        res.status = "ERROR"
        tail = out[-3000:]
        res.inconclusive.append("no verification result (compile error / ICE / crash): " + tail)
        return res
    res.status = m.group(1)
    mt = re.search(r"Verification Time: ([0-9.]+)s", out)
    res.verif_s = float(mt.group(1)) if mt else 0.0
    for cm in _CHECK_RE.finditer(out):
        _, name, status, desc, loc = cm.groups()
        res.n_checks += 1
        tm = re.search(r"\[(C\d+\.[^\]]+)\]", desc)
        is_cover = ".cover." in name or status in ("SATISFIED", "UNSATISFIABLE")
        if tm:
            tag = tm.group(1)
            if is_cover:
                old = res.covers.get(tag)
                res.covers[tag] = status if old in (None, "SATISFIED") else old
            else:
                old = res.tagged.get(tag)
                if old is None or _RANK.get(status, 2) > _RANK.get(old, 2):
                    res.tagged[tag] = status
            continue
        if status == "FAILURE":
            if ".unsupported_construct." in name or ".missing_definition." in name or "is not currently supported by Kani" in desc:
                res.inconclusive.append("unsupported construct reached: %s @ %s" % (desc[:160], loc[-160:]))
                res.unsupported = True
            elif "unwinding assertion" in desc or ".unwind." in name:
                res.inconclusive.append("unwinding assertion failed at " + loc)
            elif "is not currently supported" in desc or "unsupported" in desc.lower() or "reachable" in desc.lower() and "unsupported" in name:
                res.inconclusive.append("unsupported construct reached: " + desc[:200])
            elif "__verif" in loc and "in function" in loc and re.search(r"__verif\w*::(?!%s\b)" % re.escape(h.name), loc):
                # failure inside harness scaffolding (mocks); not the code under contract
                res.untagged_fail.append((name, desc, loc))
            else:
                res.untagged_fail.append((name, desc, loc))
    if res.unsupported:
        # everything after a missing foreign function is garbage (CBMC havocs): never a violation
        res.untagged_fail = []
        res.tagged = {k: ("UNDETERMINED" if v == "FAILURE" else v) for k, v in res.tagged.items()}
    return res


def run_harness(ov, h, playback=False):
    res = HarnessResult(h)
    u = h.unit
    cwd = ov
    if h.xcrate is not None:
        cwd = xcrate_dir(u, h.xcrate)
        cmd = ["cargo", "kani", "--harness", exact_name(h), "--exact", "--output-format=regular",
               "-Z", "function-contracts", "-Z", "stubbing"] + h.extra
    else:
        cmd = ["cargo", "kani", "-p", u.package, "--harness", exact_name(h), "--exact", "--output-format=regular",
               "-Z", "function-contracts", "-Z", "stubbing"] + u.cargo_args + h.extra
    if h.solver:
        cmd += ["--solver", h.solver]
        if h.solver not in ("minisat", "cadical") and "-Z unstable-options" not in " ".join(cmd):
            cmd += ["-Z", "unstable-options"]
    if playback:
        cmd += ["-Z", "concrete-playback", "--concrete-playback=print"]
    res.cmd = " ".join(cmd)
    t0 = time.time()
    try:
        p = subprocess.run(["bash", "-c", "ulimit -v %d; exec \"$@\"" % (MEM_LIMIT_KB * 2), "bash"] + cmd,
                           cwd=cwd, env={**os.environ, **kani_env()}, stdout=subprocess.PIPE,
                           stderr=subprocess.STDOUT, text=True, errors="replace", timeout=h.timeout)
        out = p.stdout
    except subprocess.TimeoutExpired as e:
        res.status = "TIMEOUT"
        res.wall_s = time.time() - t0
        res.out = (e.stdout or b"").decode(errors="replace") if isinstance(e.stdout, bytes) else (e.stdout or "")
        res.inconclusive.append("timeout after %ds" % h.timeout)
        subprocess.run(["pkill", "-f", "cbmc.*%s" % h.name])
        return res
    res.wall_s = time.time() - t0
    return parse_kani_output(h, out, res)


def exact_name(h):
    if h.xcrate is not None:
        return h.name
    mp = module_path(h.file)
    return "::".join([x for x in (mp, h.module, h.name) if x])


def build_package(ov, unit):
    """Compile once (so the parallel per-harness runs only pay codegen)."""
    cmd = ["cargo", "kani", "-p", unit.package, "--only-codegen", "-Z", "function-contracts", "-Z", "stubbing"] + unit.cargo_args
    t0 = time.time()
    p = sh(cmd, cwd=ov, env=kani_env(), timeout=3600)
    dt = time.time() - t0
    if p.returncode != 0:
        raise Inconclusive("overlay does not compile under Kani for unit %s:\n%s" % (unit.id, p.stdout[-6000:]))
    return dt


def run_harnesses(ov, harnesses, jobs=None):
    jobs = jobs or max(1, min(NPROC // 2, len(harnesses)))
    if any(h.attrs.get("heavy") for h in harnesses):
        # harnesses marked heavy=1 need ~10 GB each in CBMC: keep the total well inside the machine's memory
        jobs = min(jobs, int(os.environ.get("VERIF_HEAVY_JOBS", "4")))
    results = []
    with cf.ThreadPoolExecutor(max_workers=jobs) as ex:
        futs = {ex.submit(run_harness, ov, h): h for h in harnesses}
        for f in cf.as_completed(futs):
            r = f.result()
            log("  harness %-40s %-10s checks=%d cbmc=%.1fs wall=%.1fs" % (r.h.name, r.status, r.n_checks, r.verif_s, r.wall_s))
            results.append(r)
    results.sort(key=lambda r: r.h.name)
    return results


# --------------------------------------------------------------------------------------------
# replay
# --------------------------------------------------------------------------------------------

def extract_playback_tests(out):
    """[(check description, test fn name, test source)] from --concrete-playback=print output."""
    tests = []
    for m in re.finditer(r"```\n(/// Test generated for harness[^\n]*\n///\s*\n/// Check for `(\w+)`: \"([^\n]*)\"\n.*?)```", out, re.S):
        src, cls, desc = m.group(1), m.group(2), m.group(3)
        fm = re.search(r"fn (kani_concrete_playback_\w+)\(\)", src)
        if fm:
            tests.append((cls, desc, fm.group(1), src))
    return tests


def native_playback(ov, unit, harness_file_rel, module, test_src, test_name, timeout=3600, xcrate=None):
    """Append the generated #[test] to the spliced harness module and run it natively."""
    if xcrate is not None:
        ov = xcrate_dir(unit, xcrate)
    p = os.path.join(ov, harness_file_rel)
    s = open(p).read().rstrip()
    if xcrate is not None:
        s2 = s + "\n#[cfg(kani)]\n" + test_src + "\n"
    else:
        assert s.endswith("}")
        s2 = s[:-1] + "\n" + test_src + "\n}\n"
    open(p, "w").write(s2)
    try:
        if xcrate is not None:
            cmd = ["cargo", "kani", "playback", "-Z", "concrete-playback", "--", test_name]
        else:
            cmd = ["cargo", "kani", "playback", "-Z", "concrete-playback", "-p", unit.package] + unit.cargo_args + unit.playback_cargo_args + ["--", test_name]
        r = sh(cmd, cwd=ov, env={**kani_env(), "RUST_BACKTRACE": "0"}, timeout=timeout)
        return r.returncode, r.stdout
    finally:
        open(p, "w").write(s + "\n")
